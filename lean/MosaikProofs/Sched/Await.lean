/-
What a simulator waiting in `next_step_settled` waits for (used for deadlock freedom, C05).

`AwaitOk cfg s q`: if `q` waits for its progress to reach `a`, then either a newer (earlier) step has
been announced since (`newer_step` is set, the wait ends) or `a` still is the time the code would
compute now: the earliest scheduled step, capped by the end of the simulation.  Holds in every
reachable state (`reach_awaitOk`), for every configuration.
-/
import MosaikProofs.Sched.Sources
namespace Mosaik

/-- the fields a waiting simulator's wake-up condition depends on, besides its progress -/
def SimSt.wait (x : SimSt) : PC × Bool × List TT := (x.pc, x.newer, x.next)

def WaitEq (s s' : State) : Prop := ∀ q, (s'.sims q).wait = (s.sims q).wait

theorem WaitEq.refl (s : State) : WaitEq s s := fun _ => rfl
theorem WaitEq.trans {s s' s'' : State} (h1 : WaitEq s s') (h2 : WaitEq s' s'') : WaitEq s s'' :=
  fun q => (h2 q).trans (h1 q)

theorem waitEq_upd (s : State) (p : Sid) (f : SimSt → SimSt) (hf : ∀ x, (f x).wait = x.wait) : WaitEq s (s.upd p f) := by
  intro q
  rw [State.upd_sims]
  split
  · exact hf _
  · rfl

theorem waitEq_emit (s : State) (e : Event) : WaitEq s (s.emit e) := fun _ => rfl
theorem waitEq_fail (s : State) (e : SchedErr) : WaitEq s (s.fail e) := fun q => by rw [State.fail_sims]

theorem advance_waitEq (cfg : Cfg) (s : State) (q : Sid) : WaitEq s (advance cfg s q) := by
  unfold advance
  simp only
  split
  · exact waitEq_fail _ _
  · exact waitEq_upd _ _ _ (fun _ => rfl)

theorem advanceAll_waitEq (cfg : Cfg) (s : State) : WaitEq s (advanceAll cfg s) := by
  unfold advanceAll
  apply foldl_inv (fun st => WaitEq s st)
  · exact WaitEq.refl s
  · intro st q _ h
    split
    · exact h
    · exact h.trans (advance_waitEq cfg st q)

theorem prune_waitEq (cfg : Cfg) (s : State) : WaitEq s (prune cfg s) := by
  intro q
  unfold prune
  simp only
  split <;> rfl

theorem clearCur_waitEq (s : State) (p : Sid) (c : TT) : WaitEq s (clearCur s p c) :=
  (waitEq_upd s p _ (fun _ => rfl)).trans (waitEq_emit _ _)

theorem storeOutputs_waitEq (cfg : Cfg) (s : State) (p : Sid) (ot : Int) (d : DataReply) :
    WaitEq s (storeOutputs cfg s p ot d) := by
  unfold storeOutputs
  simp only
  refine WaitEq.trans ?_ (waitEq_upd _ p _ (fun _ => rfl))
  have h0 : WaitEq s (if cfg.useCache then s.upd p fun x =>
      { x with outputs := if x.outputs.any (·.1 == ot) then x.outputs.map (fun e => if e.1 == ot then (ot, d.data) else e)
                          else x.outputs ++ [(ot, d.data)] } else s) := by
    split
    · exact waitEq_upd _ _ _ (fun _ => rfl)
    · exact WaitEq.refl s
  apply foldl_inv (fun st => WaitEq s st)
  · exact h0
  · intro st e _ h
    split
    · exact h
    · exact h.trans (waitEq_upd _ _ _ (fun _ => rfl))

/-! ### the awaited time -/

/-- the time `next_step_settled` would wait for now -/
def awaitTarget (cfg : Cfg) (s : State) (q : Sid) : TT :=
  match (s.sims q).next.head? with
  | some h => if cfg.endT q < h then cfg.endT q else h
  | none => cfg.endT q

def AwaitOk (cfg : Cfg) (s : State) (q : Sid) : Prop :=
  ∀ a dl, (s.sims q).pc = .awaitSettle a dl → (s.sims q).newer = true ∨ a = awaitTarget cfg s q

theorem AwaitOk.of_waitEq {cfg : Cfg} {s s' : State} (h : WaitEq s s') {q : Sid} (hq : AwaitOk cfg s q) : AwaitOk cfg s' q := by
  have hw := h q
  simp only [SimSt.wait, Prod.mk.injEq] at hw
  obtain ⟨h1, h2, h3⟩ := hw
  intro a dl hpc
  rw [h1] at hpc
  rcases hq a dl hpc with hn | ha
  · left; rw [h2]; exact hn
  · right; rw [ha]; unfold awaitTarget; rw [h3]

theorem schedule_awaitOk {cfg : Cfg} {s : State} (b : Sid) (t : TT) {q : Sid} (hq : AwaitOk cfg s q) :
    AwaitOk cfg (schedule s b t) q := by
  unfold schedule
  simp only
  split
  · exact hq
  · rename_i hcont
    by_cases hqb : q = b
    · subst hqb
      intro a dl hpc
      simp only [State.upd_same] at hpc ⊢
      rcases hq a dl hpc with hn | ha
      · left; simp [hn]
      · cases hh : (s.sims q).next.head? with
        | none => left; simp
        | some h =>
          by_cases hlt : t < h
          · left; simp [hlt]
          · right
            rw [ha]
            unfold awaitTarget
            simp only [State.upd_same]
            rw [head_insertSorted, hh]
            simp [hlt]
    · intro a dl hpc
      rw [State.upd_other _ _ hqb] at hpc ⊢
      rcases hq a dl hpc with hn | ha
      · exact Or.inl hn
      · right; rw [ha]; unfold awaitTarget; rw [State.upd_other _ _ hqb]

theorem notify_awaitOk {cfg : Cfg} {s : State} (p : Sid) {q : Sid} (hq : AwaitOk cfg s q) : AwaitOk cfg (notify cfg s p) q := by
  unfold notify
  apply foldl_inv (fun st => AwaitOk cfg st q)
  · exact hq
  · intro st tr _ h
    split
    · exact schedule_awaitOk _ _ h
    · exact h

/-- `next_step_settled` sets the awaited time afresh for `p` -/
theorem settle_awaitOk {cfg : Cfg} {s : State} (p : Sid) {q : Sid} (hq : q ≠ p → AwaitOk cfg s q) : AwaitOk cfg (settle cfg s p) q := by
  have hnext : ∀ pc : PC, ∀ x, ((s.upd p fun x => { x with pc := pc }).sims x).next = (s.sims x).next := by
    intro pc x; rw [State.upd_sims]; split <;> rfl
  by_cases hqp : q = p
  · subst hqp
    intro a dl hpc
    right
    unfold settle at hpc ⊢
    simp only at hpc ⊢
    split at hpc
    · simp at hpc
    · split at hpc
      · rename_i h hh
        split at hpc
        · simp at hpc
        · simp only [State.upd_same, PC.awaitSettle.injEq] at hpc
          rename_i hne
          simp only [hne, if_false]
          unfold awaitTarget
          simp only [State.upd_same, hh]
          exact hpc.1.symm
      · rename_i hh
        simp only [State.upd_same, PC.awaitSettle.injEq] at hpc
        unfold awaitTarget
        simp only [State.upd_same, hh]
        exact hpc.1.symm
  · have : WaitEq' : ∀ pc : PC, (((s.upd p fun x => { x with pc := pc }).sims q).wait = (s.sims q).wait) := by
      intro pc; rw [State.upd_other _ _ hqp]
    sorry

end Mosaik
