/-
A bound on the number of steps (C05, "after finitely many steps").

Every step a simulator begins is a tiered time of the simulator's depth `d` whose time is `< until`
and whose sub-step counters are `< max_loop_iterations` (loop guard); the steps are strictly
increasing.  Hence a simulator begins at most `until * max_loop_iterations ^ (d - 1)` steps.
-/
import MosaikProofs.Sched.Complete
import MosaikProofs.Properties.C09
import MosaikProofs.Properties.C02
namespace Mosaik

/-- a tiered time read as a number: sub-step counters are digits in base `M` -/
def enc (M : Nat) : List Nat → Nat
  | [] => 0
  | x :: xs => x * M ^ xs.length + enc M xs

theorem enc_lt_pow (M : Nat) : ∀ (xs : List Nat), (∀ y ∈ xs, y < M) → enc M xs < M ^ xs.length
  | [], _ => by simp [enc]
  | x :: xs, h => by
    have hx : x < M := h x List.mem_cons_self
    have ih := enc_lt_pow M xs (fun y hy => h y (List.mem_cons_of_mem _ hy))
    simp only [enc, List.length_cons, Nat.pow_succ]
    calc x * M ^ xs.length + enc M xs < x * M ^ xs.length + M ^ xs.length := by omega
      _ = (x + 1) * M ^ xs.length := by rw [Nat.add_mul, Nat.one_mul]
      _ ≤ M * M ^ xs.length := Nat.mul_le_mul_right _ hx
      _ = M ^ xs.length * M := Nat.mul_comm _ _

theorem enc_lt_of_lt (M : Nat) : ∀ (a b : List Nat), a.length = b.length → (∀ y ∈ a.tail, y < M) → (∀ y ∈ b.tail, y < M) →
    a < b → enc M a < enc M b
  | [], [], _, _, _, h => absurd h (List.lt_irrefl _)
  | [], _ :: _, hl, _, _, _ => by simp at hl
  | _ :: _, [], hl, _, _, _ => by simp at hl
  | x :: xs, y :: ys, hl, ha, hb, h => by
    simp only [List.length_cons, Nat.add_right_cancel_iff] at hl
    simp only [List.tail_cons] at ha hb
    simp only [enc]
    rw [List.cons_lt_cons_iff] at h
    rcases h with h | ⟨rfl, h⟩
    · have h1 := enc_lt_pow M xs ha
      have h2 : (x + 1) * M ^ xs.length ≤ y * M ^ ys.length := by
        rw [hl]; exact Nat.mul_le_mul_right _ h
      rw [Nat.add_mul, Nat.one_mul] at h2
      omega
    · have := enc_lt_of_lt M xs ys hl (fun z hz => ha z (List.mem_of_mem_tail hz)) (fun z hz => hb z (List.mem_of_mem_tail hz)) h
      rw [hl]; omega

theorem enc_bound (M U : Nat) (x : Nat) (xs : List Nat) (hx : x < U) (h : ∀ y ∈ xs, y < M) :
    enc M (x :: xs) < U * M ^ xs.length := by
  have h1 := enc_lt_pow M xs h
  simp only [enc]
  calc x * M ^ xs.length + enc M xs < x * M ^ xs.length + M ^ xs.length := by omega
    _ = (x + 1) * M ^ xs.length := by rw [Nat.add_mul, Nat.one_mul]
    _ ≤ U * M ^ xs.length := Nat.mul_le_mul_right _ hx

/-- a strictly decreasing list of numbers below `B` has at most `B` elements -/
theorem length_le_of_decreasing : ∀ (l : List Nat) (B : Nat), l.Pairwise (fun a b => b < a) → (∀ x ∈ l, x < B) → l.length ≤ B
  | [], _, _, _ => Nat.zero_le _
  | x :: xs, B, hp, hb => by
    rw [List.pairwise_cons] at hp
    have hx := hb x List.mem_cons_self
    have := length_le_of_decreasing xs x hp.2 (fun y hy => hp.1 y hy)
    simp only [List.length_cons]
    omega

/-- every step begun has the simulator's shape -/
theorem reach_begun_shape {cfg : Cfg} (hw : WFCfg cfg) (hs : WFShape cfg) {s : State} (hr : Reach cfg s) :
    s.failed = none → ∀ p, ∀ b ∈ (s.sims p).begun, b.length = (cfg.sim p).depth := by
  induction hr with
  | init => intro _ p b hb; simp [initState, initSim] at hb
  | @step s s' a hr hstep ih =>
    intro hnf p b hb
    have hf0 : s.failed = none := by
      cases hf : s.failed with
      | none => rfl
      | some e => rw [step_none_of_failed (by rw [hf]; rfl)] at hstep; cases hstep
    rcases step_frame hw (reach_good hw hr) hstep hnf with hl | ⟨q, c, _, _, _, _, _, hhead, _, _, _, hbeg, _, hoth⟩
    · rw [hl.begun] at hb; exact ih hf0 p b hb
    · by_cases hpq : p = q
      · subst hpq
        rw [hbeg] at hb
        rcases List.mem_cons.mp hb with rfl | hb
        · exact ((reach_shape hw hs hr) p).1 b (List.mem_of_mem_head? hhead)
        · exact ih hf0 p b hb
      · rw [hoth p hpq] at hb; exact ih hf0 p b hb

/-- **a simulator begins at most `until * max_loop_iterations ^ (depth - 1)` steps** -/
theorem steps_bounded {cfg : Cfg} (hw : WFCfg cfg) (hs : WFShape cfg) {s : State} (hr : Reach cfg s) (hnf : s.failed = none)
    (p : Sid) (hp : p < cfg.n) :
    (s.sims p).begun.length ≤ cfg.until_ * cfg.maxLoop ^ ((cfg.sim p).depth - 1) := by
  have hdep := hw.depth p hp
  have hsorted := ((reach_good hw hr hnf).1 p hp).begun_sorted
  have hshape := reach_begun_shape hw hs hr hnf p
  have hloop := C09.substeps_bounded hw hr hnf p
  have htime := C02.steps_before_until hw hr hnf p
  -- digits below the bound
  have hdig : ∀ b ∈ (s.sims p).begun, ∀ y ∈ b.tail, y < cfg.maxLoop := by
    intro b hb y hy
    have := hloop b hb
    unfold C09.OverBound at this
    rw [List.any_eq_false] at this
    have := this y hy
    simpa using this
  have hlen : ((s.sims p).begun.map (enc cfg.maxLoop)).length = (s.sims p).begun.length := List.length_map _
  rw [← hlen]
  apply length_le_of_decreasing
  · rw [List.pairwise_map]
    refine (List.Pairwise.and_mem.mp hsorted).imp ?_
    rintro a b ⟨ha, hb, hlt⟩
    exact enc_lt_of_lt _ b a (by rw [hshape b hb, hshape a ha]) (hdig b hb) (hdig a ha) hlt
  · intro x hx
    rw [List.mem_map] at hx
    obtain ⟨b, hb, rfl⟩ := hx
    have hl := hshape b hb
    match b, hl with
    | [], hl => simp at hl; omega
    | x :: xs, hl =>
      have hxl : xs.length = (cfg.sim p).depth - 1 := by simp at hl; omega
      rw [← hxl]
      apply enc_bound
      · have := htime (x :: xs) hb
        simpa [TT.time, tier] using this
      · intro y hy; exact hdig (x :: xs) hb y (by simpa using hy)

end Mosaik
