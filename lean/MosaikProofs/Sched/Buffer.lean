/-
No late arrivals (C03, whole runs, flat configurations).

`BufOk`: every value waiting in a simulator's timed input buffer is due strictly after every step
that simulator has begun.  It holds in every reachable state of a flat configuration whose pushed
connections are covered by the input-delay table (`PushOk`).  Consequences, with the building blocks
of `Properties/C03.lean`: a pushed value is never taken by a step before it is due, and — because
it arrives before any step at or after its due time has begun — the step that takes it is the
destination's *first* step at or after its due time; nothing arrives too late to be delivered.
-/
import MosaikProofs.Sched.Bound
namespace Mosaik

/-- pushed connections: target exists, the delay is a number of time steps and is covered by the
destination's minimal input delay from the source -/
structure PushOk (cfg : Cfg) : Prop where
  range : ∀ p, p < cfg.n → ∀ e ∈ (cfg.sim p).push, e.2.1 < cfg.n
  shape : ∀ p, p < cfg.n → ∀ e ∈ (cfg.sim p).push, e.2.2.1.cutoff = 1 ∧ e.2.2.1.tiers.length = 1
  covered : ∀ p, p < cfg.n → ∀ e ∈ (cfg.sim p).push, ∃ d0, (p, d0) ∈ (cfg.sim e.2.1).inputDelays ∧ TI.le d0 e.2.2.1

def BufOk (s : State) (q : Sid) : Prop := ∀ e ∈ (s.sims q).buffer, ∀ b ∈ (s.sims q).begun, TT.time b < e.time

/-- the two fields the invariant reads -/
def SimSt.bb (x : SimSt) : List BufEntry × List TT := (x.buffer, x.begun)
def BBEq (s s' : State) : Prop := ∀ q, (s'.sims q).bb = (s.sims q).bb

theorem BBEq.refl (s : State) : BBEq s s := fun _ => rfl
theorem BBEq.trans {s s' s'' : State} (h1 : BBEq s s') (h2 : BBEq s' s'') : BBEq s s'' := fun q => (h2 q).trans (h1 q)
theorem bbEq_upd (s : State) (p : Sid) (f : SimSt → SimSt) (hf : ∀ x, (f x).bb = x.bb) : BBEq s (s.upd p f) := by
  intro q; rw [State.upd_sims]; split
  · exact hf _
  · rfl
theorem bbEq_emit (s : State) (e : Event) : BBEq s (s.emit e) := fun _ => rfl
theorem bbEq_fail (s : State) (e : SchedErr) : BBEq s (s.fail e) := fun q => by rw [State.fail_sims]

theorem BufOk.of_bbEq {s s' : State} (h : BBEq s s') {q : Sid} (hq : BufOk s q) : BufOk s' q := by
  have := h q
  simp only [SimSt.bb, Prod.mk.injEq] at this
  unfold BufOk
  rw [this.1, this.2]; exact hq

theorem advance_bbEq (cfg : Cfg) (s : State) (q : Sid) : BBEq s (advance cfg s q) := by
  unfold advance; simp only; split
  · exact bbEq_fail _ _
  · exact bbEq_upd _ _ _ (fun _ => rfl)

theorem advanceAll_bbEq (cfg : Cfg) (s : State) : BBEq s (advanceAll cfg s) := by
  unfold advanceAll
  apply foldl_inv (fun st => BBEq s st)
  · exact BBEq.refl s
  · intro st q _ h; split
    · exact h
    · exact h.trans (advance_bbEq cfg st q)

theorem settle_bbEq (cfg : Cfg) (s : State) (p : Sid) : BBEq s (settle cfg s p) := by
  unfold settle; simp only
  have key : ∀ pc : PC, BBEq s (s.upd p fun x => { x with pc := pc }) := fun pc => bbEq_upd _ _ _ (fun _ => rfl)
  split
  · exact (key _).trans (bbEq_emit _ _)
  · split
    · split
      · exact key _
      · exact key _
    · exact key _

theorem schedule_bbEq (s : State) (q : Sid) (t : TT) : BBEq s (schedule s q t) := by
  unfold schedule; simp only; split
  · exact BBEq.refl s
  · exact bbEq_upd _ _ _ (fun _ => rfl)

theorem notify_bbEq (cfg : Cfg) (s : State) (p : Sid) : BBEq s (notify cfg s p) := by
  unfold notify
  apply foldl_inv (fun st => BBEq s st)
  · exact BBEq.refl s
  · intro st tr _ h; split
    · exact h.trans (schedule_bbEq _ _ _)
    · exact h

theorem prune_bbEq (cfg : Cfg) (s : State) : BBEq s (prune cfg s) := by
  intro q; unfold prune; simp only; split <;> rfl

theorem clearCur_bbEq (s : State) (p : Sid) (c : TT) : BBEq s (clearCur s p c) := by
  unfold clearCur
  exact (bbEq_upd s p (fun x => { x with cur := .none }) (fun _ => rfl)).trans (bbEq_emit _ _)

theorem finish_bbEq (cfg : Cfg) (s : State) (p : Sid) (c : TT) : BBEq s (finish cfg s p c) := by
  have h3 : BBEq s (advanceAll cfg (notify cfg (clearCur s p c) p)) :=
    ((clearCur_bbEq s p c).trans (notify_bbEq cfg _ p)).trans (advanceAll_bbEq cfg _)
  unfold finish; simp only
  split
  · exact h3
  · split
    · exact (h3.trans (prune_bbEq cfg _)).trans (settle_bbEq cfg _ p)
    · exact h3.trans (settle_bbEq cfg _ p)

theorem afterStep_bbEq (cfg : Cfg) (s : State) (p : Sid) (c : TT) : BBEq s (afterStep cfg s p c) := by
  have h3 : BBEq s (rtCheck cfg s p c) := fun q => by rw [rtCheck_sims]
  unfold afterStep; simp only
  split
  · exact h3
  · split
    · exact h3.trans (finish_bbEq cfg _ p c)
    · exact h3.trans (bbEq_upd _ _ _ (fun _ => rfl))

theorem mem_insertBuf (e : BufEntry) : ∀ (l : List BufEntry) (x : BufEntry), x ∈ insertBuf e l ↔ x = e ∨ x ∈ l
  | [], x => by simp [insertBuf]
  | y :: ys, x => by
    unfold insertBuf
    split
    · simp
    · simp only [List.mem_cons, mem_insertBuf e ys x]
      constructor
      · rintro (h | h | h)
        · exact Or.inr (Or.inl h)
        · exact Or.inl h
        · exact Or.inr (Or.inr h)
      · rintro (h | h | h)
        · exact Or.inr (Or.inl h)
        · exact Or.inl h
        · exact Or.inr (Or.inr h)

/-- what `get_outputs` adds to the buffers: entries stamped with the output time plus the time shift
of a pushed connection of `p`; `begun` is not touched -/
theorem storeOutputs_buffer (cfg : Cfg) (s : State) (p : Sid) (ot : Int) (d : DataReply) :
    ∀ q, ((storeOutputs cfg s p ot d).sims q).begun = (s.sims q).begun ∧
      ∀ e ∈ ((storeOutputs cfg s p ot d).sims q).buffer, e ∈ (s.sims q).buffer ∨
        ∃ pe ∈ (cfg.sim p).push, pe.2.1 = q ∧ e.time = ot.toNat + tier pe.2.2.1.tiers 0 := by
  intro q
  unfold storeOutputs
  simp only
  have h0 : ∀ s2 : State, ((s2.sims q).begun = (s.sims q).begun ∧ (s2.sims q).buffer = (s.sims q).buffer) →
      (((s2.upd p fun x => { x with data := d.data }).sims q).begun = (s.sims q).begun) ∧
      ((s2.upd p fun x => { x with data := d.data }).sims q).buffer = (s.sims q).buffer := by
    intro s2 h; rw [State.upd_sims]; split <;> exact h
  -- the fold over the pushed connections
  have key : ∀ (l : List (Port × Sid × TI × Port)) (st : State), (∀ pe ∈ l, pe ∈ (cfg.sim p).push) →
      ((st.sims q).begun = (s.sims q).begun ∧ ∀ e ∈ (st.sims q).buffer, e ∈ (s.sims q).buffer ∨
        ∃ pe ∈ (cfg.sim p).push, pe.2.1 = q ∧ e.time = ot.toNat + tier pe.2.2.1.tiers 0) →
      (((l.foldl (fun st (e : Port × Sid × TI × Port) =>
        match OutData.get? d.data e.1 with
        | .none => st
        | some v => st.upd e.2.1 fun y =>
            { y with buffer := insertBuf { time := ot.toNat + tier e.2.2.1.tiers 0, ctr := y.ctr,
                                           key := { eid := e.2.2.2.1, attr := e.2.2.2.2, ssid := p, seid := e.1.1 }, val := v } y.buffer,
                     ctr := y.ctr + 1 }) st).sims q).begun = (s.sims q).begun ∧
       ∀ e ∈ ((l.foldl (fun st (e : Port × Sid × TI × Port) =>
        match OutData.get? d.data e.1 with
        | .none => st
        | some v => st.upd e.2.1 fun y =>
            { y with buffer := insertBuf { time := ot.toNat + tier e.2.2.1.tiers 0, ctr := y.ctr,
                                           key := { eid := e.2.2.2.1, attr := e.2.2.2.2, ssid := p, seid := e.1.1 }, val := v } y.buffer,
                     ctr := y.ctr + 1 }) st).sims q).buffer, e ∈ (s.sims q).buffer ∨
        ∃ pe ∈ (cfg.sim p).push, pe.2.1 = q ∧ e.time = ot.toNat + tier pe.2.2.1.tiers 0) := by
    intro l
    induction l with
    | nil => intro st _ h; exact h
    | cons a l ih =>
      intro st hl h
      simp only [List.foldl_cons]
      apply ih _ (fun pe hpe => hl pe (List.mem_cons_of_mem _ hpe))
      split
      · exact h
      · rename_i v _
        rw [State.upd_sims]
        split
        · rename_i hq
          simp only
          refine ⟨h.1, ?_⟩
          intro e he
          rcases (mem_insertBuf _ _ e).mp he with rfl | he
          · exact Or.inr ⟨a, hl a List.mem_cons_self, hq.symm, rfl⟩
          · exact h.2 e he
        · exact h
  have hfold := key (cfg.sim p).push
  split
  · have h1 := hfold (s.upd p fun x =>
      { x with outputs := if x.outputs.any (·.1 == ot) then x.outputs.map (fun e => if e.1 == ot then (ot, d.data) else e)
                          else x.outputs ++ [(ot, d.data)] }) (fun _ h => h) (by
        rw [State.upd_sims]; split
        · exact ⟨rfl, fun e he => Or.inl he⟩
        · exact ⟨rfl, fun e he => Or.inl he⟩)
    rw [State.upd_sims]
    split
    · exact h1
    · exact h1
  · have h1 := hfold s (fun _ h => h) ⟨rfl, fun e he => Or.inl he⟩
    rw [State.upd_sims]
    split
    · exact h1
    · exact h1

theorem beginStep_bb (cfg : Cfg) (s : State) (p : Sid) (c : TT) (rest : List TT) (hnf : (beginStep cfg s p c rest).failed = none) :
    ((beginStep cfg s p c rest).sims p).buffer = (bufferTake (s.sims p).buffer (TT.time c) []).2 ∧
    ((beginStep cfg s p c rest).sims p).begun = c :: (s.sims p).begun := by
  unfold beginStep at hnf ⊢
  by_cases h1 : c ≠ (s.sims p).progress
  · rw [if_pos h1] at hnf
    have := State.fail_failed (s.upd p fun x => { x with cur := some c, next := rest }) (.stepInPast p)
    rw [hnf] at this; cases this
  · rw [if_neg h1] at hnf ⊢
    by_cases h2 : (c.tail.any fun k => decide (k ≥ cfg.maxLoop)) = true
    · rw [if_pos h2] at hnf
      have := State.fail_failed (s.upd p fun x => { x with cur := some c, next := rest }) (.loop p)
      rw [hnf] at this; cases this
    · rw [if_neg h2]
      simp [getInputData]

theorem step_bufOk {cfg : Cfg} (hw : WFCfg cfg) (hs : WFShape cfg) {rank : Sid → Nat} (hfl : Flat cfg rank) (hpo : PushOk cfg)
    {s s' : State} {a : Action} (hr : Reach cfg s) (hf0 : s.failed = none) (hb : ∀ q, q < cfg.n → BufOk s q)
    (h : step cfg s a = some s') (hnf : s'.failed = none) : ∀ q, q < cfg.n → BufOk s' q := by
  intro q hq
  cases a with
  | start p =>
    simp only [step, stepStart] at h
    split at h
    · split at h
      · cases h; exact (hb q hq).of_bbEq (advance_bbEq cfg s p)
      · cases h; exact (hb q hq).of_bbEq ((advance_bbEq cfg s p).trans (settle_bbEq cfg _ p))
    · cases h
  | wake p =>
    simp only [step, stepWake] at h
    split at h
    · cases hpc : (s.sims p).pc with
      | awaitSettle a dl =>
        simp only [hpc] at h
        split at h
        · have h1 : BBEq s (if cfg.rt.isSome then advance cfg (s.upd p fun y => { y with newer := false }) p
              else (s.upd p fun y => { y with newer := false })) := by
            have h0 : BBEq s (s.upd p fun y => { y with newer := false }) := bbEq_upd _ _ _ (fun _ => rfl)
            split
            · exact h0.trans (advance_bbEq cfg _ p)
            · exact h0
          generalize (if cfg.rt.isSome then advance cfg (s.upd p fun y => { y with newer := false }) p
              else (s.upd p fun y => { y with newer := false })) = s2 at h h1
          by_cases hfl2 : s2.failed.isSome = true
          · simp only [hfl2, if_true, Option.some.injEq] at h
            subst h; exact (hb q hq).of_bbEq h1
          · simp only [hfl2, Bool.false_eq_true, if_false, Option.some.injEq] at h
            subst h; exact (hb q hq).of_bbEq (h1.trans (settle_bbEq cfg _ p))
        · cases h
      | init => simp [hpc] at h
      | waitDeps t => simp [hpc] at h
      | inStep => simp [hpc] at h
      | inGet => simp [hpc] at h
      | done => simp [hpc] at h
    · cases h
  | deps p =>
    simp only [step, stepDeps] at h
    split at h
    · cases hpc : (s.sims p).pc with
      | waitDeps t =>
        simp only [hpc] at h
        split at h
        · cases hnext : (s.sims p).next with
          | nil => simp [hnext] at h
          | cons c rest =>
            simp only [hnext, Option.some.injEq] at h
            subst h
            by_cases hqp : q = p
            · subst hqp
              obtain ⟨hbuf, hbeg⟩ := beginStep_bb cfg s q c rest hnf
              intro e he b hbb
              rw [hbuf] at he
              simp only [bufferTake] at he
              rw [hbeg] at hbb
              simp only [List.mem_filter, Bool.not_eq_true', decide_eq_false_iff_not, Nat.not_le] at he
              rcases List.mem_cons.mp hbb with rfl | hbb
              · exact he.2
              · exact hb q hq e he.1 b hbb
            · unfold BufOk; rw [beginStep_other cfg s p c rest hqp]; exact hb q hq
        · cases h
      | init => simp [hpc] at h
      | awaitSettle a dl => simp [hpc] at h
      | inStep => simp [hpc] at h
      | inGet => simp [hpc] at h
      | done => simp [hpc] at h
    · cases h
  | setData p target entries =>
    simp only [step, stepSetData] at h
    split at h
    · split at h
      · cases h; exact (hb q hq).of_bbEq (bbEq_fail _ _)
      · cases h
        exact (hb q hq).of_bbEq (bbEq_upd s target
          (fun x => { x with setData := entries.foldl (fun acc e => InputData.set acc e.1 e.2) x.setData }) (fun _ => rfl))
    · cases h
  | getDataReq p target =>
    simp only [step, stepGetDataReq] at h
    split at h
    · split at h
      · cases h; exact (hb q hq).of_bbEq (bbEq_fail _ _)
      · cases h; exact hb q hq
    · cases h
  | setEvent p t =>
    simp only [step, stepSetEvent] at h
    split at h
    · split at h
      · cases h; exact (hb q hq).of_bbEq (bbEq_fail _ _)
      · split at h
        · cases h; exact (hb q hq).of_bbEq (schedule_bbEq _ _ _)
        · cases h; exact (hb q hq).of_bbEq (bbEq_emit _ _)
    · cases h
  | stepReply p r =>
    simp only [step, stepStepReply] at h
    split at h
    · cases hcur : (s.sims p).cur with
      | none => simp [hcur] at h
      | some c =>
        simp only [hcur, Option.some.injEq] at h
        subst h
        have h1 : BBEq s ((s.upd p fun y => { y with last := some c }).emit (.stepped p c)) :=
          (bbEq_upd s p (fun y => { y with last := some c }) (fun _ => rfl)).trans (bbEq_emit _ _)
        unfold processStepReply
        simp only
        cases r with
        | bad => exact (hb q hq).of_bbEq (h1.trans (bbEq_fail _ _))
        | none =>
          simp only
          split
          · exact (hb q hq).of_bbEq (h1.trans (bbEq_fail _ _))
          · exact (hb q hq).of_bbEq (h1.trans (afterStep_bbEq cfg _ p c))
        | int n =>
          simp only
          split
          · exact (hb q hq).of_bbEq (h1.trans (bbEq_fail _ _))
          · split
            · exact (hb q hq).of_bbEq ((h1.trans (schedule_bbEq _ _ _)).trans (afterStep_bbEq cfg _ p c))
            · exact (hb q hq).of_bbEq (h1.trans (afterStep_bbEq cfg _ p c))
    · cases h
  | dataReply p d =>
    simp only [step, stepDataReply] at h
    split at h
    · rename_i hguard
      simp only [Bool.and_eq_true, beq_iff_eq] at hguard
      have hp := live_lt hguard.1
      cases hcur : (s.sims p).cur with
      | none => simp [hcur] at h
      | some c =>
        simp only [hcur, Option.some.injEq] at h
        subst h
        have h1 : BBEq s ((s.upd p fun y => { y with outTime := (outTimeOf c d).2 }).emit (.got p c (outTimeOf c d).2 d.data)) :=
          (bbEq_upd s p (fun y => { y with outTime := (outTimeOf c d).2 }) (fun _ => rfl)).trans (bbEq_emit _ _)
        unfold processDataReply
        simp only
        split
        · exact (hb q hq).of_bbEq (h1.trans (bbEq_fail _ _))
        · rename_i hot
          refine BufOk.of_bbEq (finish_bbEq cfg _ p c) ?_
          obtain ⟨hbeg, hbuf⟩ := storeOutputs_buffer cfg ((s.upd p fun y => { y with outTime := (outTimeOf c d).2 }).emit
            (.got p c (outTimeOf c d).2 d.data)) p (outTimeOf c d).1 d q
          have h1q := h1 q
          simp only [SimSt.bb, Prod.mk.injEq] at h1q
          intro e he b hbb
          rw [hbeg, h1q.2] at hbb
          rcases hbuf e he with hold | ⟨pe, hpe, hpq, het⟩
          · rw [h1q.1] at hold; exact hb q hq e hold b hbb
          · -- a value pushed now is due after every step the destination has begun
            obtain ⟨hcore, _⟩ := reach_good hw hr hf0
            obtain ⟨d0, hd0, hle⟩ := hpo.covered p hp pe hpe
            rw [hpq] at hd0
            have hlt : b < TI.act (s.sims p).progress d0 := (hcore q hq).inputs b hbb (p, d0) hd0
            rw [(hcore p hp).cur_eq c hcur] at hlt
            have hlt2 : b < TI.act c pe.2.2.1 := TT.lt_of_lt_of_le hlt (TI.act_mono_right c hle)
            obtain ⟨hc1, hl1⟩ := hpo.shape p hp pe hpe
            have hbl : b.length = 1 := by rw [reach_begun_shape hw hs hr hf0 q b hbb, hfl.depth]
            have hal : (TI.act c pe.2.2.1).length = 1 := by rw [TI.act_length, hl1]
            have := (flat_lt hbl hal).mp hlt2
            rw [flat_act_time c hc1 hl1] at this
            rw [het]
            omega
    · cases h
  | tick n =>
    simp only [step, stepTick] at h
    split at h
    · cases h
    · cases h; exact hb q hq

/-- **no late arrivals**: in every reachable state of a flat configuration, every value waiting in a
simulator's input buffer is due strictly after every step that simulator has begun -/
theorem reach_bufOk {cfg : Cfg} (hw : WFCfg cfg) (hs : WFShape cfg) {rank : Sid → Nat} (hfl : Flat cfg rank) (hpo : PushOk cfg)
    {s : State} (hr : Reach cfg s) : s.failed = none → ∀ q, q < cfg.n → BufOk s q := by
  induction hr with
  | init => intro _ q _ e he; simp [initState, initSim] at he
  | @step s s' a hr hstep ih =>
    intro hnf
    have hf0 : s.failed = none := by
      cases hf : s.failed with
      | none => rfl
      | some e => rw [step_none_of_failed (by rw [hf]; rfl)] at hstep; cases hstep
    exact step_bufOk hw hs hfl hpo hr hf0 (ih hf0) hstep hnf

end Mosaik
