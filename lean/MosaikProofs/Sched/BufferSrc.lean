/-
Nothing is invented, nothing is attributed to another source (C03, all configurations).

`step_buffer_sources`: an action adds an entry to a simulator's input buffer only as follows — the
action is the `get_data` reply `d` of a simulator `p`, the entry belongs to one of `p`'s pushed
connections to that simulator, carries exactly the value `d` holds for the connection's source port,
is keyed by (destination port, `p`, source entity) and is stamped with the reply's output time plus
the connection's time shift.
-/
import MosaikProofs.Sched.Others
namespace Mosaik

/-- the entry belongs to a pushed connection of `p` and carries the value of the reply `d` -/
def PushedBy (cfg : Cfg) (p q : Sid) (ot : Int) (d : DataReply) (e : BufEntry) : Prop :=
  ∃ pe ∈ (cfg.sim p).push, pe.2.1 = q ∧ OutData.get? d.data pe.1 = some e.val ∧
    e.key = { eid := pe.2.2.2.1, attr := pe.2.2.2.2, ssid := p, seid := pe.1.1 } ∧
    e.time = ot.toNat + tier pe.2.2.1.tiers 0

theorem storeOutputs_sources (cfg : Cfg) (s : State) (p : Sid) (ot : Int) (d : DataReply) (q : Sid) :
    ∀ e ∈ ((storeOutputs cfg s p ot d).sims q).buffer, e ∈ (s.sims q).buffer ∨ PushedBy cfg p q ot d e := by
  unfold storeOutputs
  simp only
  have key : ∀ (l : List (Port × Sid × TI × Port)) (st : State), (∀ pe ∈ l, pe ∈ (cfg.sim p).push) →
      (∀ e ∈ (st.sims q).buffer, e ∈ (s.sims q).buffer ∨ PushedBy cfg p q ot d e) →
      ∀ e ∈ ((l.foldl (fun st (e : Port × Sid × TI × Port) =>
        match OutData.get? d.data e.1 with
        | .none => st
        | some v => st.upd e.2.1 fun y =>
            { y with buffer := insertBuf { time := ot.toNat + tier e.2.2.1.tiers 0, ctr := y.ctr,
                                           key := { eid := e.2.2.2.1, attr := e.2.2.2.2, ssid := p, seid := e.1.1 }, val := v } y.buffer,
                     ctr := y.ctr + 1 }) st).sims q).buffer, e ∈ (s.sims q).buffer ∨ PushedBy cfg p q ot d e := by
    intro l
    induction l with
    | nil => intro st _ h; exact h
    | cons a l ih =>
      intro st hl h
      simp only [List.foldl_cons]
      apply ih _ (fun pe hpe => hl pe (List.mem_cons_of_mem _ hpe))
      split
      · exact h
      · rename_i v hv
        rw [State.upd_sims]
        split
        · rename_i hq
          simp only
          intro e he
          rcases (mem_insertBuf _ _ e).mp he with rfl | he
          · exact Or.inr ⟨a, hl a List.mem_cons_self, hq.symm, hv, rfl, rfl⟩
          · exact h e he
        · exact h
  have hfold := key (cfg.sim p).push
  split
  · have h1 := hfold (s.upd p fun x =>
      { x with outputs := if x.outputs.any (·.1 == ot) then x.outputs.map (fun e => if e.1 == ot then (ot, d.data) else e)
                          else x.outputs ++ [(ot, d.data)] }) (fun _ h => h) (by
        rw [State.upd_sims]; split <;> exact fun e he => Or.inl he)
    rw [State.upd_sims]
    split
    · exact h1
    · exact h1
  · have h1 := hfold s (fun _ h => h) (fun e he => Or.inl he)
    rw [State.upd_sims]
    split
    · exact h1
    · exact h1

/-- where buffered values come from, for every action -/
theorem step_buffer_sources {cfg : Cfg} {s s' : State} {a : Action} (h : step cfg s a = some s') (q : Sid) :
    ∀ e ∈ (s'.sims q).buffer, e ∈ (s.sims q).buffer ∨
      ∃ p d c, a = .dataReply p d ∧ (s.sims p).cur = some c ∧ PushedBy cfg p q (outTimeOf c d).1 d e := by
  have ofbb : ∀ {s1 s2 : State}, BBEq s1 s2 → ∀ e ∈ (s2.sims q).buffer, e ∈ (s1.sims q).buffer := by
    intro s1 s2 hbb e he
    have := hbb q
    simp only [SimSt.bb, Prod.mk.injEq] at this
    rw [this.1] at he; exact he
  intro e he
  cases a with
  | start p =>
    left
    simp only [step, stepStart] at h
    split at h
    · split at h
      · cases h; exact ofbb (advance_bbEq cfg s p) e he
      · cases h; exact ofbb ((advance_bbEq cfg s p).trans (settle_bbEq cfg _ p)) e he
    · cases h
  | wake p =>
    left
    simp only [step, stepWake] at h
    split at h
    · cases hpc : (s.sims p).pc with
      | awaitSettle a dl =>
        simp only [hpc] at h
        split at h
        · have h1 : BBEq s (if cfg.rt.isSome then advance cfg (s.upd p fun y => { y with newer := false }) p
              else (s.upd p fun y => { y with newer := false })) := by
            have h0 : BBEq s (s.upd p fun y => { y with newer := false }) := bbEq_upd _ _ _ (fun _ => rfl)
            split
            · exact h0.trans (advance_bbEq cfg _ p)
            · exact h0
          generalize (if cfg.rt.isSome then advance cfg (s.upd p fun y => { y with newer := false }) p
              else (s.upd p fun y => { y with newer := false })) = s2 at h h1
          by_cases hfl2 : s2.failed.isSome = true
          · simp only [hfl2, if_true, Option.some.injEq] at h
            subst h; exact ofbb h1 e he
          · simp only [hfl2, Bool.false_eq_true, if_false, Option.some.injEq] at h
            subst h; exact ofbb (h1.trans (settle_bbEq cfg _ p)) e he
        · cases h
      | init => simp [hpc] at h
      | waitDeps t => simp [hpc] at h
      | inStep => simp [hpc] at h
      | inGet => simp [hpc] at h
      | done => simp [hpc] at h
    · cases h
  | deps p =>
    left
    simp only [step, stepDeps] at h
    split at h
    · cases hpc : (s.sims p).pc with
      | waitDeps t =>
        simp only [hpc] at h
        split at h
        · cases hnext : (s.sims p).next with
          | nil => simp [hnext] at h
          | cons c rest =>
            simp only [hnext, Option.some.injEq] at h
            subst h
            by_cases hqp : q = p
            · subst hqp
              -- beginning a step only removes entries
              unfold beginStep at he
              have hsub : ∀ x ∈ (bufferTake (s.sims q).buffer (TT.time c) []).2, x ∈ (s.sims q).buffer := by
                intro x hx
                simp only [bufferTake] at hx
                exact (List.mem_filter.mp hx).1
              split at he
              · rw [State.fail_sims] at he; simpa using he
              · split at he
                · rw [State.fail_sims] at he; simpa using he
                · simp [getInputData] at he
                  exact hsub e he
            · rw [beginStep_other cfg s p c rest hqp] at he; exact he
        · cases h
      | init => simp [hpc] at h
      | awaitSettle a dl => simp [hpc] at h
      | inStep => simp [hpc] at h
      | inGet => simp [hpc] at h
      | done => simp [hpc] at h
    · cases h
  | setData p target entries =>
    left
    simp only [step, stepSetData] at h
    split at h
    · split at h
      · cases h; exact ofbb (bbEq_fail _ _) e he
      · cases h
        exact ofbb (bbEq_upd s target
          (fun x => { x with setData := entries.foldl (fun acc e => InputData.set acc e.1 e.2) x.setData }) (fun _ => rfl)) e he
    · cases h
  | getDataReq p target =>
    left
    simp only [step, stepGetDataReq] at h
    split at h
    · split at h
      · cases h; exact ofbb (bbEq_fail _ _) e he
      · cases h; exact he
    · cases h
  | setEvent p t =>
    left
    simp only [step, stepSetEvent] at h
    split at h
    · split at h
      · cases h; exact ofbb (bbEq_fail _ _) e he
      · split at h
        · cases h; exact ofbb (schedule_bbEq _ _ _) e he
        · cases h; exact ofbb (bbEq_emit _ _) e he
    · cases h
  | stepReply p r =>
    left
    simp only [step, stepStepReply] at h
    split at h
    · cases hcur : (s.sims p).cur with
      | none => simp [hcur] at h
      | some c =>
        simp only [hcur, Option.some.injEq] at h
        subst h
        have h1 : BBEq s ((s.upd p fun y => { y with last := some c }).emit (.stepped p c)) :=
          (bbEq_upd s p (fun y => { y with last := some c }) (fun _ => rfl)).trans (bbEq_emit _ _)
        unfold processStepReply at he
        simp only at he
        cases r with
        | bad => exact ofbb (h1.trans (bbEq_fail _ _)) e he
        | none =>
          simp only at he
          split at he
          · exact ofbb (h1.trans (bbEq_fail _ _)) e he
          · exact ofbb (h1.trans (afterStep_bbEq cfg _ p c)) e he
        | int n =>
          simp only at he
          split at he
          · exact ofbb (h1.trans (bbEq_fail _ _)) e he
          · split at he
            · exact ofbb ((h1.trans (schedule_bbEq _ _ _)).trans (afterStep_bbEq cfg _ p c)) e he
            · exact ofbb (h1.trans (afterStep_bbEq cfg _ p c)) e he
    · cases h
  | dataReply p d =>
    simp only [step, stepDataReply] at h
    split at h
    · cases hcur : (s.sims p).cur with
      | none => simp [hcur] at h
      | some c =>
        simp only [hcur, Option.some.injEq] at h
        subst h
        have h1 : BBEq s ((s.upd p fun y => { y with outTime := (outTimeOf c d).2 }).emit (.got p c (outTimeOf c d).2 d.data)) :=
          (bbEq_upd s p (fun y => { y with outTime := (outTimeOf c d).2 }) (fun _ => rfl)).trans (bbEq_emit _ _)
        unfold processDataReply at he
        simp only at he
        split at he
        · left; exact ofbb (h1.trans (bbEq_fail _ _)) e he
        · have he2 := ofbb (finish_bbEq cfg _ p c) e he
          rcases storeOutputs_sources cfg _ p _ d q e he2 with h2 | h2
          · left; exact ofbb h1 e h2
          · right; exact ⟨p, d, c, rfl, hcur, h2⟩
    · cases h
  | tick n =>
    left
    simp only [step, stepTick] at h
    split at h
    · cases h
    · cases h; exact he

end Mosaik
