/-
Cache on or off: the same function of the output history (C04, data level).

For one connection from `src` (source port `sport`, shift `sh`), read off the same log:
* the cache path delivers `(getOutputFor (histOf cfg src log) (c − sh))[sport]` (`C03.pull_refines_spec`)
* the push path delivers `lastVal ((pushHist src sport sh log).filter (due ≤ c)) d0` (`C03.begin_push_refines_spec`)
`cache_push_agree`: these are equal whenever the source's reported output times do not go back, every reply carries the
attribute (a persistent attribute must always be produced — mosaik warns otherwise) and there is no initial data.
So whether the data cache is on or off, the value a step receives over the connection is the same function of what the
source has produced.
-/
import MosaikProofs.Sched.PushRef
namespace Mosaik

/-- every `get_data` reply of `src` in the log carries `sport`, and output times do not go back (oldest first) -/
def LogOk (src : Sid) (sport : Port) : List Event → Prop
  | [] => True
  | .got p _ outTT data :: l =>
    (p = src → (OutData.get? data sport).isSome = true ∧ ∀ t ∈ gotTimes src l, t ≤ TT.time outTT) ∧ LogOk src sport l
  | .begin .. :: l => LogOk src sport l
  | .stepped .. :: l => LogOk src sport l
  | .finished .. :: l => LogOk src sport l
  | .done .. :: l => LogOk src sport l
  | .rtWarn .. :: l => LogOk src sport l
  | .eventIgnored .. :: l => LogOk src sport l

/-- the keys of the never-pruned history are the reported output times (no initial cache content) -/
theorem histOf_keys (cfg : Cfg) (src : Sid) (h0 : (cfg.sim src).outputs0 = []) : ∀ (log : List Event) (e : Int × OutData),
    e ∈ histOf cfg src log → ∃ t ∈ gotTimes src log, e.1 = (t : Int)
  | [], e, he => by simp [histOf, h0] at he
  | ev :: l, e, he => by
    cases ev with
    | got p c outTT data =>
      simp only [histOf, gotTimes] at he ⊢
      by_cases hp : p = src
      · simp only [hp, if_true] at he ⊢
        rcases mem_cachePut he with rfl | ⟨hin, _⟩
        · exact ⟨TT.time outTT, List.mem_cons_self, rfl⟩
        · obtain ⟨t, ht, het⟩ := histOf_keys cfg src h0 l e hin
          exact ⟨t, List.mem_cons_of_mem _ ht, het⟩
      · simp only [hp, if_false] at he ⊢
        exact histOf_keys cfg src h0 l e he
    | begin => exact histOf_keys cfg src h0 l e he
    | stepped => exact histOf_keys cfg src h0 l e he
    | finished => exact histOf_keys cfg src h0 l e he
    | done => exact histOf_keys cfg src h0 l e he
    | rtWarn => exact histOf_keys cfg src h0 l e he
    | eventIgnored => exact histOf_keys cfg src h0 l e he

theorem histOf_sorted (cfg : Cfg) (src : Sid) (sport : Port) (h0 : (cfg.sim src).outputs0 = []) : ∀ (log : List Event),
    LogOk src sport log → Sorted (histOf cfg src log)
  | [], _ => by simp [histOf, h0, Sorted]
  | ev :: l, hok => by
    cases ev with
    | got p c outTT data =>
      simp only [LogOk] at hok
      simp only [histOf]
      by_cases hp : p = src
      · simp only [hp, if_true]
        apply sorted_cachePut (histOf_sorted cfg src sport h0 l hok.2)
        intro e he
        obtain ⟨t, ht, het⟩ := histOf_keys cfg src h0 l e he
        have := (hok.1 hp).2 t ht
        omega
      · simp only [hp, if_false]
        exact histOf_sorted cfg src sport h0 l hok.2
    | begin => exact histOf_sorted cfg src sport h0 l hok
    | stepped => exact histOf_sorted cfg src sport h0 l hok
    | finished => exact histOf_sorted cfg src sport h0 l hok
    | done => exact histOf_sorted cfg src sport h0 l hok
    | rtWarn => exact histOf_sorted cfg src sport h0 l hok
    | eventIgnored => exact histOf_sorted cfg src sport h0 l hok

/-- **cache on or off, the same value**: the cache lookup for step time `c` over a connection of shift `sh` gives the value
the push path's history gives -/
theorem cache_push_agree (cfg : Cfg) (src : Sid) (sport : Port) (sh : Nat) (h0 : (cfg.sim src).outputs0 = []) (c : Nat) :
    ∀ (log : List Event), LogOk src sport log →
      (OutData.get? (getOutputFor (histOf cfg src log) ((c : Int) - (sh : Int))) sport).getD none =
        lastVal ((pushHist src sport sh log).filter (fun x => decide (x.1 ≤ c))) none
  | [], _ => by simp [histOf, h0, pushHist, getOutputFor, lastVal, OutData.get?]
  | ev :: l, hok => by
    cases ev with
    | got p cc outTT data =>
      simp only [LogOk] at hok
      have ih := cache_push_agree cfg src sport sh h0 c l hok.2
      simp only [histOf, pushHist]
      by_cases hp : p = src
      · simp only [hp, if_true]
        obtain ⟨hsome, hmono⟩ := hok.1 hp
        obtain ⟨v, hv⟩ := Option.isSome_iff_exists.mp hsome
        rw [hv]
        simp only
        have hsorted := histOf_sorted cfg src sport h0 l hok.2
        have hle : ∀ e ∈ histOf cfg src l, e.1 ≤ (TT.time outTT : Int) := by
          intro e he
          obtain ⟨t, ht, het⟩ := histOf_keys cfg src h0 l e he
          have := hmono t ht
          omega
        rw [lookup_cachePut hsorted _ _ hle, List.filter_append]
        by_cases hdue : TT.time outTT + sh ≤ c
        · have h1 : (TT.time outTT : Int) ≤ (c : Int) - (sh : Int) := by omega
          rw [if_pos h1, hv]
          simp only [List.filter_cons, hdue, decide_true, if_true, List.filter_nil, Option.getD_some]
          rw [lastVal_append_single]
        · have h1 : ¬ (TT.time outTT : Int) ≤ (c : Int) - (sh : Int) := by omega
          rw [if_neg h1, ih]
          simp [hdue]
      · simp only [hp, if_false]
        exact ih
    | begin => exact cache_push_agree cfg src sport sh h0 c l hok
    | stepped => exact cache_push_agree cfg src sport sh h0 c l hok
    | finished => exact cache_push_agree cfg src sport sh h0 c l hok
    | done => exact cache_push_agree cfg src sport sh h0 c l hok
    | rtWarn => exact cache_push_agree cfg src sport sh h0 c l hok
    | eventIgnored => exact cache_push_agree cfg src sport sh h0 c l hok

end Mosaik
