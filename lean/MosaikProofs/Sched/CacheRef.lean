/-
Refinement of the cache path to the output history (C03, `cache=True`).

`histOf cfg q log` is the cache of simulator `q` as it would be if it were never pruned: the declared initial data,
then every `get_data` reply recorded in the run's log, entered the way `get_outputs` enters it (`cachePut`).
`reachM_cacheRef`: in every reachable state the real (pruned) cache gives, for every lookup a consumer can still make
(`minLast − maxShift q ≤ τ`), the same entry as the never-pruned history.  Consequently the pulled inputs of every step
are the values of the history: the newest output of the source at or before (step time − shift)
(`pull_refines_spec`).

Hypothesis on the run (`ReachM`): the output times a simulator reports never go back (the complement of the known
finding about non-monotone output times); on the configuration: the initial cache content is in key order
(`InitSorted`; its complement is the known finding about initial data of several time-shifted connections).
-/
import MosaikProofs.Sched.Cached
namespace Mosaik

/-! ### one cache entry more -/

/-- how `get_outputs` enters a reply into the cache: overwrite the entry of that time, else append -/
def cachePut (l : List (Int × OutData)) (ot : Int) (x : OutData) : List (Int × OutData) :=
  if l.any (·.1 == ot) then l.map (fun e => if e.1 == ot then (ot, x) else e) else l ++ [(ot, x)]

theorem sorted_cachePut {l : List (Int × OutData)} (hs : Sorted l) (ot : Int) (x : OutData) (h : ∀ e ∈ l, e.1 ≤ ot) :
    Sorted (cachePut l ot x) := by
  unfold cachePut
  split
  · exact sorted_replace hs ot x
  · rename_i hany
    apply sorted_append hs
    intro e he
    have := h e he
    have hne : e.1 ≠ ot := by
      intro heq
      apply hany
      rw [List.any_eq_true]
      exact ⟨e, he, by simp [heq]⟩
    omega

theorem mem_cachePut_self (l : List (Int × OutData)) (ot : Int) (x : OutData) : (ot, x) ∈ cachePut l ot x := by
  unfold cachePut
  split
  · rename_i hany
    rw [List.any_eq_true] at hany
    obtain ⟨e, he, hk⟩ := hany
    rw [List.mem_map]
    exact ⟨e, he, by simp [hk]⟩
  · simp

theorem mem_cachePut_of_ne {l : List (Int × OutData)} {ot : Int} {x : OutData} {e : Int × OutData} (he : e ∈ l) (hne : e.1 ≠ ot) :
    e ∈ cachePut l ot x := by
  unfold cachePut
  split
  · rw [List.mem_map]
    refine ⟨e, he, ?_⟩
    have : (e.1 == ot) = false := by simp [hne]
    simp [this]
  · exact List.mem_append_left _ he

theorem mem_cachePut {l : List (Int × OutData)} {ot : Int} {x : OutData} {e : Int × OutData} (h : e ∈ cachePut l ot x) :
    e = (ot, x) ∨ (e ∈ l ∧ e.1 ≠ ot) := by
  unfold cachePut at h
  split at h
  · rw [List.mem_map] at h
    obtain ⟨e0, he0, rfl⟩ := h
    by_cases hk : (e0.1 == ot) = true
    · left; simp [hk]
    · right
      simp only [hk, Bool.false_eq_true, if_false]
      exact ⟨he0, by simpa using hk⟩
  · rename_i hany
    rcases List.mem_append.mp h with h | h
    · right
      refine ⟨h, ?_⟩
      intro heq
      apply hany
      rw [List.any_eq_true]
      exact ⟨e, h, by simp [heq]⟩
    · left; simpa using h

/-- a lookup after one more entry whose time is not before any cached time -/
theorem lookup_cachePut {l : List (Int × OutData)} (hs : Sorted l) (ot : Int) (x : OutData) (h : ∀ e ∈ l, e.1 ≤ ot) (τ : Int) :
    getOutputFor (cachePut l ot x) τ = if ot ≤ τ then x else getOutputFor l τ := by
  by_cases hτ : ot ≤ τ
  · simp only [hτ, if_true]
    have hsorted := sorted_cachePut hs ot x h
    have hmem := mem_cachePut_self l ot x
    unfold getOutputFor
    rw [find?_reverse_eq_lastSat]
    cases hl : lastSat (fun (e : Int × OutData) => decide (e.1 ≤ τ)) (cachePut l ot x) with
    | none =>
      exfalso
      exact lastSat_none _ hl (ot, x) hmem hτ
    | some e =>
      obtain ⟨hmem_e, hle, hmax⟩ := lastSat_some hsorted hl
      -- `e` is the entry with the greatest key ≤ τ; every key is ≤ ot ≤ τ, so it is the new entry
      have h1 : (ot, x).1 ≤ e.1 := hmax (ot, x) hmem hτ
      have h2 : e.1 ≤ ot := by
        rcases mem_cachePut hmem_e with rfl | ⟨hin, _⟩
        · exact Int.le_refl _
        · exact h e hin
      have : e = (ot, x) := sorted_key_inj hsorted hmem_e hmem (by simp only at h1; omega)
      rw [this]
  · simp only [hτ, if_false]
    unfold cachePut
    split
    · exact getOutputFor_replace l ot x τ (by omega)
    · exact getOutputFor_append l ot x τ (by omega)

/-! ### the never-pruned history, read off the log -/

def Event.isGot : Event → Bool
  | .got .. => true
  | _ => false

/-- the cache of `q` if it were never pruned: initial content, then every `get_data` reply of the log (most recent first) -/
def histOf (cfg : Cfg) (q : Sid) : List Event → List (Int × OutData)
  | [] => (cfg.sim q).outputs0
  | .got p _ outTT data :: l => if p = q then cachePut (histOf cfg q l) (TT.time outTT : Int) data else histOf cfg q l
  | .begin .. :: l => histOf cfg q l
  | .stepped .. :: l => histOf cfg q l
  | .finished .. :: l => histOf cfg q l
  | .done .. :: l => histOf cfg q l
  | .rtWarn .. :: l => histOf cfg q l
  | .eventIgnored .. :: l => histOf cfg q l

theorem histOf_cons_noGot (cfg : Cfg) (q : Sid) (e : Event) (l : List Event) (h : e.isGot = false) :
    histOf cfg q (e :: l) = histOf cfg q l := by
  cases e <;> first | rfl | (simp [Event.isGot] at h)

/-- the log grew by events that are not `get_data` replies -/
def LogExt (s s' : State) : Prop := ∃ pre, s'.log = pre ++ s.log ∧ ∀ e ∈ pre, e.isGot = false

theorem LogExt.refl (s : State) : LogExt s s := ⟨[], rfl, fun _ h => by cases h⟩
theorem LogExt.trans {s s' s'' : State} (h1 : LogExt s s') (h2 : LogExt s' s'') : LogExt s s'' := by
  obtain ⟨p1, e1, n1⟩ := h1
  obtain ⟨p2, e2, n2⟩ := h2
  refine ⟨p2 ++ p1, by rw [e2, e1, List.append_assoc], ?_⟩
  intro e he
  rcases List.mem_append.mp he with h | h
  · exact n2 e h
  · exact n1 e h
theorem LogExt.of_log_eq {s s' : State} (h : s'.log = s.log) : LogExt s s' := ⟨[], by simp [h], fun _ h => by cases h⟩

theorem LogExt.hist {cfg : Cfg} {s s' : State} (h : LogExt s s') (q : Sid) : histOf cfg q s'.log = histOf cfg q s.log := by
  obtain ⟨pre, he, hn⟩ := h
  rw [he]
  clear he
  induction pre with
  | nil => rfl
  | cons e pre ih =>
    rw [List.cons_append, histOf_cons_noGot cfg q e _ (hn e List.mem_cons_self)]
    exact ih (fun e' he' => hn e' (List.mem_cons_of_mem _ he'))

theorem logExt_upd (s : State) (p : Sid) (f : SimSt → SimSt) : LogExt s (s.upd p f) := LogExt.of_log_eq rfl
theorem logExt_emit (s : State) (e : Event) (h : e.isGot = false) : LogExt s (s.emit e) :=
  ⟨[e], rfl, fun e' he' => by simp only [List.mem_singleton] at he'; rw [he']; exact h⟩
theorem logExt_fail (s : State) (e : SchedErr) : LogExt s (s.fail e) := by
  apply LogExt.of_log_eq
  unfold State.fail
  split <;> rfl

theorem advance_logExt (cfg : Cfg) (s : State) (q : Sid) : LogExt s (advance cfg s q) := by
  unfold advance; simp only
  split
  · exact logExt_fail _ _
  · exact logExt_upd _ _ _

theorem advanceAll_logExt (cfg : Cfg) (s : State) : LogExt s (advanceAll cfg s) := by
  unfold advanceAll
  generalize List.range cfg.n = l
  induction l generalizing s with
  | nil => exact LogExt.refl s
  | cons q l ih =>
    simp only [List.foldl_cons]
    split
    · exact ih s
    · exact (advance_logExt cfg s q).trans (ih _)

theorem settle_logExt (cfg : Cfg) (s : State) (p : Sid) : LogExt s (settle cfg s p) := by
  unfold settle; simp only
  split
  · exact (logExt_upd _ _ _).trans (logExt_emit _ _ rfl)
  · split
    · split
      · exact logExt_upd _ _ _
      · exact logExt_upd _ _ _
    · exact logExt_upd _ _ _

theorem schedule_logExt (s : State) (q : Sid) (t : TT) : LogExt s (schedule s q t) := by
  unfold schedule; simp only
  split
  · exact LogExt.refl s
  · exact logExt_upd _ _ _

theorem notify_logExt (cfg : Cfg) (s : State) (p : Sid) : LogExt s (notify cfg s p) := by
  unfold notify
  generalize (cfg.sim p).triggers = l
  suffices h : ∀ (st : State), LogExt s st → LogExt s (l.foldl (fun st (tr : Port × Sid × TI) =>
      if OutData.has (s.sims p).data tr.1 then schedule st tr.2.1 (TI.act (s.sims p).outTime tr.2.2) else st) st) from h s (LogExt.refl s)
  induction l with
  | nil => intro st h; exact h
  | cons tr l ih =>
    intro st h
    simp only [List.foldl_cons]
    apply ih
    split
    · exact h.trans (schedule_logExt _ _ _)
    · exact h

theorem prune_logExt (cfg : Cfg) (s : State) : LogExt s (prune cfg s) := LogExt.of_log_eq rfl

theorem clearCur_logExt (s : State) (p : Sid) (c : TT) : LogExt s (clearCur s p c) :=
  (logExt_upd _ _ _).trans (logExt_emit _ _ rfl)

theorem rtCheck_logExt (cfg : Cfg) (s : State) (p : Sid) (c : TT) : LogExt s (rtCheck cfg s p c) := by
  unfold rtCheck
  split
  · exact LogExt.refl s
  · split
    · split
      · exact logExt_fail _ _
      · exact logExt_emit _ _ rfl
    · exact LogExt.refl s

/-! ### the invariant -/

def LastMono (s s' : State) : Prop := ∀ q, lastTime s q ≤ lastTime s' q

theorem LastMono.of_lastEq {s s' : State} (h : LastEq s s') : LastMono s s' := by
  intro q; unfold lastTime; rw [h q]; exact Int.le_refl _
theorem LastMono.trans {s s' s'' : State} (h1 : LastMono s s') (h2 : LastMono s' s'') : LastMono s s'' :=
  fun q => Int.le_trans (h1 q) (h2 q)

theorem foldl_min_mono (f g : Sid → Int) (h : ∀ p, f p ≤ g p) : ∀ (l : List Sid) (m m' : Int), m ≤ m' →
    l.foldl (fun m p => min m (f p)) m ≤ l.foldl (fun m p => min m (g p)) m'
  | [], _, _, hm => hm
  | p :: l, m, m', hm => by
    simp only [List.foldl_cons]
    apply foldl_min_mono f g h l
    have := h p
    omega

theorem minLast_mono (cfg : Cfg) {s s' : State} (h : LastMono s s') : minLast cfg s ≤ minLast cfg s' := by
  unfold minLast
  exact foldl_min_mono _ _ h _ _ _ (h 0)

theorem minLast_eq (cfg : Cfg) {s s' : State} (h : LastEq s s') : minLast cfg s' = minLast cfg s := by
  unfold minLast lastTime
  have : ∀ q, (s'.sims q).last = (s.sims q).last := h
  simp only [this]

/-- the real cache against the never-pruned history -/
structure CacheRef (cfg : Cfg) (s : State) : Prop where
  sortedO : ∀ q, Sorted (s.sims q).outputs
  sortedH : ∀ q, Sorted (histOf cfg q s.log)
  sub : ∀ q, ∀ e ∈ (s.sims q).outputs, e ∈ histOf cfg q s.log
  look : ∀ q, q < cfg.n → ∀ τ, minLast cfg s - maxShift cfg q ≤ τ →
    getOutputFor (s.sims q).outputs τ = getOutputFor (histOf cfg q s.log) τ

theorem cacheRef_frame {cfg : Cfg} {s s' : State} (h : CacheRef cfg s) (ho : OutEq s s') (hl : LogExt s s') (hm : LastMono s s') :
    CacheRef cfg s' := by
  refine ⟨fun q => by rw [ho q]; exact h.sortedO q, fun q => by rw [hl.hist q]; exact h.sortedH q,
    fun q e he => by rw [hl.hist q]; rw [ho q] at he; exact h.sub q e he, ?_⟩
  intro q hq τ hτ
  rw [ho q, hl.hist q]
  apply h.look q hq τ
  have := minLast_mono cfg hm
  omega

theorem sorted_filter {l : List (Int × OutData)} (hs : Sorted l) (f : Int × OutData → Bool) : Sorted (l.filter f) := by
  unfold Sorted at *
  exact hs.sublist List.filter_sublist

theorem cacheRef_prune {cfg : Cfg} {s : State} (h : CacheRef cfg s) : CacheRef cfg (prune cfg s) := by
  have hlog : (prune cfg s).log = s.log := rfl
  have hout : ∀ q, ∃ f, ((prune cfg s).sims q).outputs = (s.sims q).outputs.filter f := by
    intro q
    by_cases hq : q < cfg.n
    · rw [prune_outputs cfg s hq]
      exact ⟨_, rfl⟩
    · refine ⟨fun _ => true, ?_⟩
      have hall : ∀ (l : List (Int × OutData)), l.filter (fun _ => true) = l := by
        intro l; induction l with
        | nil => rfl
        | cons a l ih => simp [List.filter_cons, ih]
      rw [hall]
      unfold prune
      simp [hq]
  refine ⟨?_, fun q => by rw [hlog]; exact h.sortedH q, ?_, ?_⟩
  · intro q
    obtain ⟨f, hf⟩ := hout q
    rw [hf]
    exact sorted_filter (h.sortedO q) f
  · intro q e he
    obtain ⟨f, hf⟩ := hout q
    rw [hf] at he
    rw [hlog]
    exact h.sub q e (List.mem_filter.mp he).1
  · intro q hq τ hτ
    rw [minLast_eq cfg (prune_lastEq cfg s)] at hτ
    rw [hlog, prune_outputs cfg s hq, prune_keeps_lookups (h.sortedO q) _ τ hτ]
    exact h.look q hq τ hτ

/-! ### a `get_data` reply -/

theorem storeOutputs_outputs (cfg : Cfg) (s : State) (p : Sid) (ot : Int) (d : DataReply) (hc : cfg.useCache = true) (q : Sid) :
    ((storeOutputs cfg s p ot d).sims q).outputs = if q = p then cachePut (s.sims p).outputs ot d.data else (s.sims q).outputs := by
  unfold storeOutputs
  simp only [hc, if_true]
  have rest : ∀ s2 : State, OutEq s2 (((cfg.sim p).push.foldl (fun st (e : Port × Sid × TI × Port) =>
        match OutData.get? d.data e.1 with
        | .none => st
        | some v => st.upd e.2.1 fun y =>
            { y with buffer := insertBuf { time := ot.toNat + tier e.2.2.1.tiers 0, ctr := y.ctr,
                                           key := { eid := e.2.2.2.1, attr := e.2.2.2.2, ssid := p, seid := e.1.1 }, val := v } y.buffer,
                     ctr := y.ctr + 1 }) s2).upd p fun x => { x with data := d.data }) := by
    intro s2
    refine OutEq.trans ?_ (outEq_upd _ p _ (fun _ => rfl))
    apply foldl_inv (fun st => OutEq s2 st)
    · exact OutEq.refl s2
    · intro st e _ h
      split
      · exact h
      · exact h.trans (outEq_upd _ _ _ (fun _ => rfl))
  refine (rest _ q).trans ?_
  rw [State.upd_sims]
  split
  · rename_i hqp
    subst hqp
    rfl
  · rfl

theorem storeOutputs_logExt (cfg : Cfg) (s : State) (p : Sid) (ot : Int) (d : DataReply) : LogExt s (storeOutputs cfg s p ot d) := by
  unfold storeOutputs
  simp only
  have fold : ∀ s2 : State, LogExt s s2 → LogExt s (((cfg.sim p).push.foldl (fun st (e : Port × Sid × TI × Port) =>
        match OutData.get? d.data e.1 with
        | .none => st
        | some v => st.upd e.2.1 fun y =>
            { y with buffer := insertBuf { time := ot.toNat + tier e.2.2.1.tiers 0, ctr := y.ctr,
                                           key := { eid := e.2.2.2.1, attr := e.2.2.2.2, ssid := p, seid := e.1.1 }, val := v } y.buffer,
                     ctr := y.ctr + 1 }) s2).upd p fun x => { x with data := d.data }) := by
    intro s2 h2
    refine LogExt.trans ?_ (logExt_upd _ p _)
    apply foldl_inv (fun st => LogExt s st)
    · exact h2
    · intro st e _ h
      split
      · exact h
      · exact h.trans (logExt_upd _ _ _)
  split
  · exact fold _ (logExt_upd _ _ _)
  · exact fold _ (LogExt.refl s)

/-- entering one reply into the real cache and into the history keeps them in step -/
theorem cacheRef_put {cfg : Cfg} {s s2 : State} {p : Sid} {ot : Int} {x : OutData} (h : CacheRef cfg s)
    (hmono : ∀ e ∈ histOf cfg p s.log, e.1 ≤ ot)
    (hout : ∀ q, (s2.sims q).outputs = if q = p then cachePut (s.sims p).outputs ot x else (s.sims q).outputs)
    (hhist : ∀ q, histOf cfg q s2.log = if q = p then cachePut (histOf cfg p s.log) ot x else histOf cfg q s.log)
    (hlast : LastEq s s2) : CacheRef cfg s2 := by
  have hmonoO : ∀ e ∈ (s.sims p).outputs, e.1 ≤ ot := fun e he => hmono e (h.sub p e he)
  refine ⟨?_, ?_, ?_, ?_⟩
  · intro q
    rw [hout q]
    split
    · exact sorted_cachePut (h.sortedO p) ot x hmonoO
    · exact h.sortedO q
  · intro q
    rw [hhist q]
    split
    · exact sorted_cachePut (h.sortedH p) ot x hmono
    · exact h.sortedH q
  · intro q e he
    rw [hout q] at he
    rw [hhist q]
    split at he
    · rename_i hqp
      simp only [hqp, if_true]
      rcases mem_cachePut he with rfl | ⟨hin, hne⟩
      · exact mem_cachePut_self _ _ _
      · exact mem_cachePut_of_ne (h.sub p e hin) hne
    · rename_i hqp
      simp only [hqp, if_false]
      exact h.sub q e he
  · intro q hq τ hτ
    rw [minLast_eq cfg hlast] at hτ
    rw [hout q, hhist q]
    split
    · rename_i hqp
      subst hqp
      rw [lookup_cachePut (h.sortedO q) ot x hmonoO, lookup_cachePut (h.sortedH q) ot x hmono, h.look q hq τ hτ]
    · exact h.look q hq τ hτ

/-! ### frames: blocks that touch neither caches, nor `get_data` events, nor `last_step` -/

structure Frame (s s' : State) : Prop where
  out : OutEq s s'
  log : LogExt s s'
  last : LastEq s s'

theorem Frame.refl (s : State) : Frame s s := ⟨OutEq.refl s, LogExt.refl s, LastEq.refl s⟩
theorem Frame.trans {s s' s'' : State} (h1 : Frame s s') (h2 : Frame s' s'') : Frame s s'' :=
  ⟨h1.out.trans h2.out, h1.log.trans h2.log, h1.last.trans h2.last⟩

theorem frame_upd (s : State) (p : Sid) (f : SimSt → SimSt) (ho : ∀ x, (f x).outputs = x.outputs) (hl : ∀ x, (f x).last = x.last) :
    Frame s (s.upd p f) := ⟨outEq_upd s p f ho, logExt_upd s p f, lastEq_upd s p f hl⟩
theorem frame_emit (s : State) (e : Event) (h : e.isGot = false) : Frame s (s.emit e) :=
  ⟨outEq_emit s e, logExt_emit s e h, lastEq_emit s e⟩
theorem frame_fail (s : State) (e : SchedErr) : Frame s (s.fail e) := ⟨outEq_fail s e, logExt_fail s e, lastEq_fail s e⟩

theorem advance_frame (cfg : Cfg) (s : State) (q : Sid) : Frame s (advance cfg s q) :=
  ⟨advance_outEq cfg s q, advance_logExt cfg s q, advance_lastEq cfg s q⟩
theorem advanceAll_frame (cfg : Cfg) (s : State) : Frame s (advanceAll cfg s) :=
  ⟨advanceAll_outEq cfg s, advanceAll_logExt cfg s, advanceAll_lastEq cfg s⟩
theorem settle_frame (cfg : Cfg) (s : State) (p : Sid) : Frame s (settle cfg s p) :=
  ⟨settle_outEq cfg s p, settle_logExt cfg s p, settle_lastEq cfg s p⟩
theorem schedule_frame (s : State) (q : Sid) (t : TT) : Frame s (schedule s q t) :=
  ⟨schedule_outEq s q t, schedule_logExt s q t, schedule_lastEq s q t⟩
theorem notify_frame (cfg : Cfg) (s : State) (p : Sid) : Frame s (notify cfg s p) :=
  ⟨notify_outEq cfg s p, notify_logExt cfg s p, notify_lastEq cfg s p⟩
theorem clearCur_frame (s : State) (p : Sid) (c : TT) : Frame s (clearCur s p c) :=
  ⟨clearCur_outEq s p c, clearCur_logExt s p c, clearCur_lastEq s p c⟩
theorem rtCheck_frame (cfg : Cfg) (s : State) (p : Sid) (c : TT) : Frame s (rtCheck cfg s p c) :=
  ⟨fun r => by rw [rtCheck_sims], rtCheck_logExt cfg s p c, fun r => by rw [rtCheck_sims]⟩

theorem cacheRef_of_frame {cfg : Cfg} {s s' : State} (h : CacheRef cfg s) (hf : Frame s s') : CacheRef cfg s' :=
  cacheRef_frame h hf.out hf.log (LastMono.of_lastEq hf.last)

theorem cacheRef_finish {cfg : Cfg} {s : State} (h : CacheRef cfg s) (p : Sid) (c : TT) : CacheRef cfg (finish cfg s p c) := by
  have h3 : CacheRef cfg (advanceAll cfg (notify cfg (clearCur s p c) p)) :=
    cacheRef_of_frame h (((clearCur_frame s p c).trans (notify_frame cfg _ p)).trans (advanceAll_frame cfg _))
  unfold finish; simp only
  split
  · exact h3
  · split
    · exact cacheRef_of_frame (cacheRef_prune h3) (settle_frame cfg _ p)
    · exact cacheRef_of_frame h3 (settle_frame cfg _ p)

theorem cacheRef_afterStep {cfg : Cfg} {s : State} (h : CacheRef cfg s) (p : Sid) (c : TT) : CacheRef cfg (afterStep cfg s p c) := by
  have h3 := cacheRef_of_frame h (rtCheck_frame cfg s p c)
  unfold afterStep; simp only
  split
  · exact h3
  · split
    · exact cacheRef_finish h3 p c
    · exact cacheRef_of_frame h3 (frame_upd _ _ _ (fun _ => rfl) (fun _ => rfl))

theorem frame_of_sims (s s' : State) (hs : ∀ q, (s'.sims q).outputs = (s.sims q).outputs ∧ (s'.sims q).last = (s.sims q).last)
    (hl : LogExt s s') : Frame s s' := ⟨fun q => (hs q).1, hl, fun q => (hs q).2⟩

theorem beginStep_frame (cfg : Cfg) (s : State) (p : Sid) (c : TT) (rest : List TT) : Frame s (beginStep cfg s p c rest) := by
  have h1 : Frame s (s.upd p fun x => { x with cur := some c, next := rest }) := frame_upd _ _ _ (fun _ => rfl) (fun _ => rfl)
  unfold beginStep; simp only
  split
  · exact h1.trans (frame_fail _ _)
  · split
    · exact h1.trans (frame_fail _ _)
    · refine h1.trans (frame_of_sims _ _ ?_ ⟨[_], rfl, ?_⟩)
      · intro q
        unfold getInputData
        simp only [State.emit_sims, State.upd_sims]
        by_cases hq : q = p
        · simp [hq]
        · simp [hq]
      · intro e he
        simp only [List.mem_singleton] at he
        rw [he]; rfl

/-! ### every action -/

theorem outTimeOf_time (c : TT) (d : DataReply) (h : ¬ (TT.time c : Int) > (outTimeOf c d).1) :
    ((TT.time (outTimeOf c d).2 : Nat) : Int) = (outTimeOf c d).1 := by
  unfold outTimeOf at h ⊢
  simp only at h ⊢
  split
  · rename_i heq; exact heq.symm
  · have : TT.time (zeroExt (d.time.getD (TT.time c : Int)).toNat c.length) = (d.time.getD (TT.time c : Int)).toNat := by
      simp [TT.time, tier, zeroExt]
    rw [this]
    omega

theorem lastMono_setLast (s : State) (p : Sid) (c : TT) (h : ∀ t, (s.sims p).last = some t → t ≤ c) :
    LastMono s (s.upd p fun y => { y with last := some c }) := by
  intro q
  unfold lastTime
  by_cases hq : q = p
  · subst hq
    rw [State.upd_same]
    simp only
    cases hl : (s.sims q).last with
    | none => simp only; omega
    | some t =>
      simp only
      have := TT.time_mono (h t hl)
      omega
  · rw [State.upd_other _ _ hq]
    exact Int.le_refl _

/-- **the cache invariant is kept by every action** that does not fail, given that `last_step` moves forward and that
the reported output time is not before an earlier one -/
theorem step_cacheRef {cfg : Cfg} (hc : cfg.useCache = true) {s s' : State} {a : Action} (h : CacheRef cfg s)
    (hs : step cfg s a = some s') (hf' : s'.failed = none)
    (hlast : ∀ p r c, a = .stepReply p r → (s.sims p).cur = some c → ∀ t, (s.sims p).last = some t → t ≤ c)
    (hmono : ∀ p d c, a = .dataReply p d → (s.sims p).cur = some c → ∀ e ∈ histOf cfg p s.log, e.1 ≤ (outTimeOf c d).1) :
    CacheRef cfg s' := by
  cases a with
  | start p =>
    simp only [step, stepStart] at hs
    split at hs
    · split at hs
      · cases hs; exact cacheRef_of_frame h (advance_frame cfg s p)
      · cases hs; exact cacheRef_of_frame h ((advance_frame cfg s p).trans (settle_frame cfg _ p))
    · cases hs
  | wake p =>
    simp only [step, stepWake] at hs
    split at hs
    · cases hpc : (s.sims p).pc with
      | awaitSettle a dl =>
        simp only [hpc] at hs
        split at hs
        · have h1 : Frame s (if cfg.rt.isSome then advance cfg (s.upd p fun y => { y with newer := false }) p
              else (s.upd p fun y => { y with newer := false })) := by
            have h0 : Frame s (s.upd p fun y => { y with newer := false }) := frame_upd _ _ _ (fun _ => rfl) (fun _ => rfl)
            split
            · exact h0.trans (advance_frame cfg _ p)
            · exact h0
          generalize (if cfg.rt.isSome then advance cfg (s.upd p fun y => { y with newer := false }) p
              else (s.upd p fun y => { y with newer := false })) = s2 at hs h1
          by_cases hfl2 : s2.failed.isSome = true
          · simp only [hfl2, if_true, Option.some.injEq] at hs
            subst hs; exact cacheRef_of_frame h h1
          · simp only [hfl2, Bool.false_eq_true, if_false, Option.some.injEq] at hs
            subst hs; exact cacheRef_of_frame h (h1.trans (settle_frame cfg _ p))
        · cases hs
      | init => simp [hpc] at hs
      | waitDeps t => simp [hpc] at hs
      | inStep => simp [hpc] at hs
      | inGet => simp [hpc] at hs
      | done => simp [hpc] at hs
    · cases hs
  | deps p =>
    simp only [step, stepDeps] at hs
    split at hs
    · cases hpc : (s.sims p).pc with
      | waitDeps t =>
        simp only [hpc] at hs
        split at hs
        · cases hnext : (s.sims p).next with
          | nil => simp [hnext] at hs
          | cons c rest =>
            simp only [hnext, Option.some.injEq] at hs
            subst hs
            exact cacheRef_of_frame h (beginStep_frame cfg s p c rest)
        · cases hs
      | init => simp [hpc] at hs
      | awaitSettle a dl => simp [hpc] at hs
      | inStep => simp [hpc] at hs
      | inGet => simp [hpc] at hs
      | done => simp [hpc] at hs
    · cases hs
  | setData p target entries =>
    simp only [step, stepSetData] at hs
    split at hs
    · split at hs
      · cases hs; exact cacheRef_of_frame h (frame_fail _ _)
      · cases hs
        exact cacheRef_of_frame h (frame_upd s target
          (fun x => { x with setData := entries.foldl (fun acc e => InputData.set acc e.1 e.2) x.setData }) (fun _ => rfl) (fun _ => rfl))
    · cases hs
  | getDataReq p target =>
    simp only [step, stepGetDataReq] at hs
    split at hs
    · split at hs
      · cases hs; exact cacheRef_of_frame h (frame_fail _ _)
      · cases hs; exact h
    · cases hs
  | setEvent p t =>
    simp only [step, stepSetEvent] at hs
    split at hs
    · split at hs
      · cases hs; exact cacheRef_of_frame h (frame_fail _ _)
      · split at hs
        · cases hs; exact cacheRef_of_frame h (schedule_frame _ _ _)
        · cases hs; exact cacheRef_of_frame h (frame_emit _ _ rfl)
    · cases hs
  | stepReply p r =>
    simp only [step, stepStepReply] at hs
    split at hs
    · cases hcur : (s.sims p).cur with
      | none => simp [hcur] at hs
      | some c =>
        simp only [hcur, Option.some.injEq] at hs
        subst hs
        have h1 : CacheRef cfg ((s.upd p fun y => { y with last := some c }).emit (.stepped p c)) := by
          have h0 : CacheRef cfg (s.upd p fun y => { y with last := some c }) :=
            cacheRef_frame h (outEq_upd s p _ (fun _ => rfl)) (logExt_upd s p _) (lastMono_setLast s p c (hlast p r c rfl hcur))
          exact cacheRef_of_frame h0 (frame_emit _ _ rfl)
        unfold processStepReply
        simp only
        cases r with
        | bad => exact cacheRef_of_frame h1 (frame_fail _ _)
        | none =>
          simp only
          split
          · exact cacheRef_of_frame h1 (frame_fail _ _)
          · exact cacheRef_afterStep h1 p c
        | int n =>
          simp only
          split
          · exact cacheRef_of_frame h1 (frame_fail _ _)
          · split
            · exact cacheRef_afterStep (cacheRef_of_frame h1 (schedule_frame _ _ _)) p c
            · exact cacheRef_afterStep h1 p c
    · cases hs
  | dataReply p d =>
    simp only [step, stepDataReply] at hs
    split at hs
    · rename_i hlive
      cases hcur : (s.sims p).cur with
      | none => simp [hcur] at hs
      | some c =>
        simp only [hcur, Option.some.injEq] at hs
        subst hs
        have hsf : s.failed = none := by
          simp only [live, Bool.and_eq_true, Option.isNone_iff_eq_none] at hlive
          exact hlive.1.1
        unfold processDataReply at hf' ⊢
        simp only at hf' ⊢
        split
        · -- the early-output branch fails
          rename_i hot
          simp only [hot, if_true] at hf'
          exfalso
          unfold State.fail at hf'
          simp only [State.emit, State.upd, hsf] at hf'
          cases hf'
        · rename_i hot
          apply cacheRef_finish
          have hm := hmono p d c rfl hcur
          refine cacheRef_put (p := p) (ot := (outTimeOf c d).1) (x := d.data) h hm ?_ ?_ ?_
          · intro q
            rw [storeOutputs_outputs cfg _ p _ d hc q]
            simp only [State.emit_sims]
            by_cases hq : q = p
            · subst hq; simp
            · simp [hq, State.upd_other _ _ hq]
          · intro q
            rw [(storeOutputs_logExt cfg _ p _ d).hist q]
            show histOf cfg q (Event.got p c (outTimeOf c d).2 d.data :: s.log) = _
            simp only [histOf]
            by_cases hq : q = p
            · subst hq
              simp only [if_true]
              rw [outTimeOf_time c d hot]
            · have : ¬ p = q := fun e => hq e.symm
              simp [hq, this]
          · have l1 : LastEq s (s.upd p fun x => { x with outTime := (outTimeOf c d).2 }) := lastEq_upd s p _ (fun _ => rfl)
            exact (l1.trans (lastEq_emit _ _)).trans (storeOutputs_lastEq cfg _ p _ d)
    · cases hs
  | tick n =>
    simp only [step, stepTick] at hs
    split at hs
    · cases hs
    · cases hs
      exact ⟨h.sortedO, h.sortedH, h.sub, h.look⟩

/-! ### all runs in which reported output times do not go back -/

/-- the `get_data` reply `a` does not report an output time before one reported earlier by the same simulator -/
def MonoAct (cfg : Cfg) (s : State) (a : Action) : Prop :=
  ∀ p d c, a = .dataReply p d → (s.sims p).cur = some c → ∀ e ∈ histOf cfg p s.log, e.1 ≤ (outTimeOf c d).1

/-- reachable by a run whose reported output times never go back -/
inductive ReachM (cfg : Cfg) : State → Prop where
  | init : ReachM cfg (initState cfg)
  | step {s s' : State} {a : Action} : ReachM cfg s → step cfg s a = some s' → MonoAct cfg s a → ReachM cfg s'

theorem ReachM.reach {cfg : Cfg} {s : State} (h : ReachM cfg s) : Reach cfg s := by
  induction h with
  | init => exact Reach.init
  | step _ hs _ ih => exact Reach.step ih hs

/-- the declared initial cache content is in key order -/
def InitSorted (cfg : Cfg) : Prop := ∀ q, Sorted (cfg.sim q).outputs0

theorem reachM_cacheRef {cfg : Cfg} (hw : WFCfg cfg) (hc : cfg.useCache = true) (hi : InitSorted cfg) {s : State}
    (hr : ReachM cfg s) : s.failed = none → CacheRef cfg s := by
  induction hr with
  | init =>
    intro _
    exact ⟨fun q => hi q, fun q => hi q, fun _ _ he => he, fun _ _ _ _ => rfl⟩
  | @step s s' a hr hstep hm ih =>
    intro hnf
    have hf0 : s.failed = none := by
      cases hf : s.failed with
      | none => rfl
      | some e =>
        have := step_none_of_failed (cfg := cfg) (s := s) (by simp [hf]) a
        rw [this] at hstep
        cases hstep
    refine step_cacheRef hc (ih hf0) hstep hnf ?_ hm
    intro p r c ha hcur t hlast
    have hlive : p < cfg.n := by
      subst ha
      simp only [step, stepStepReply] at hstep
      split at hstep
      · rename_i hl
        simp only [live, Bool.and_eq_true, decide_eq_true_eq] at hl
        exact hl.1.2
      · cases hstep
    obtain ⟨hcore, _⟩ := reach_good hw hr.reach hf0
    have hso := hcore p hlive
    have hb : t ∈ (s.sims p).begun := reach_lastOk hw hr.reach hf0 p hlive t hlast
    rw [← hso.cur_eq c hcur]
    exact hso.begun_le t hb

/-! ### the pulled inputs are the history's values -/

/-- `pullInputs` with the cache replaced by a history `H` -/
def pullSpec (cfg : Cfg) (H : Sid → List (Int × OutData)) (p : Sid) (c : TT) (inp : InputData) : InputData :=
  (cfg.sim p).pulled.foldl (fun acc (e : Sid × TI × Port × Port) =>
      let cache := getOutputFor (H e.1) ((TT.time c : Int) - (tier e.2.1.tiers 0 : Int))
      let v : Val := (OutData.get? cache e.2.2.1).getD .none
      InputData.set acc { eid := e.2.2.2.1, attr := e.2.2.2.2, ssid := e.1, seid := e.2.2.1.1 } v) inp

theorem foldl_congr_mem {α β : Type} (f g : β → α → β) : ∀ (l : List α) (b : β), (∀ b a, a ∈ l → f b a = g b a) → l.foldl f b = l.foldl g b
  | [], _, _ => rfl
  | a :: l, b, h => by
    simp only [List.foldl_cons]
    rw [h b a List.mem_cons_self]
    exact foldl_congr_mem f g l _ (fun b a' ha' => h b a' (List.mem_cons_of_mem _ ha'))

/-- **cache path refines the history**: in every state reachable by a run whose output times do not go back, the values a
step of `p` at a time `c` (not before its last step) pulls over its cached connections are those of the never-pruned
history: for each connection the newest output of the source at or before `c − shift` -/
theorem pull_refines_spec {cfg : Cfg} (hw : WFCfg cfg) (hc : cfg.useCache = true) (hi : InitSorted cfg) (hp : PullOk cfg) {s : State}
    (hr : ReachM cfg s) (hnf : s.failed = none) {p : Sid} (hpn : p < cfg.n) (c : TT) (hlast : lastTime s p ≤ (TT.time c : Int))
    (inp : InputData) :
    pullInputs cfg s p c inp = pullSpec cfg (fun q => histOf cfg q s.log) p c inp := by
  have href := reachM_cacheRef hw hc hi hr hnf
  unfold pullInputs pullSpec
  apply foldl_congr_mem
  intro acc e he
  simp only
  have hq : e.1 < cfg.n := hp.range p hpn e he
  have h1 := minLast_le cfg s hpn
  have h2 := maxShift_ge cfg hpn he rfl
  rw [href.look e.1 hq _ (by omega)]

/-- on a history in key order the lookup is the entry with the greatest time at or before `τ` -/
theorem hist_lookup_newest {cfg : Cfg} (hw : WFCfg cfg) (hc : cfg.useCache = true) (hi : InitSorted cfg) {s : State}
    (hr : ReachM cfg s) (hnf : s.failed = none) (q : Sid) (τ : Int) :
    (∃ e ∈ histOf cfg q s.log, e.1 ≤ τ ∧ (∀ e' ∈ histOf cfg q s.log, e'.1 ≤ τ → e'.1 ≤ e.1) ∧ getOutputFor (histOf cfg q s.log) τ = e.2) ∨
    ((∀ e ∈ histOf cfg q s.log, ¬ e.1 ≤ τ) ∧ getOutputFor (histOf cfg q s.log) τ = []) := by
  have hs := (reachM_cacheRef hw hc hi hr hnf).sortedH q
  unfold getOutputFor
  rw [find?_reverse_eq_lastSat]
  cases hl : lastSat (fun (x : Int × OutData) => decide (x.1 ≤ τ)) (histOf cfg q s.log) with
  | none => right; exact ⟨lastSat_none _ hl, rfl⟩
  | some e =>
    left
    obtain ⟨hm, hle, hmax⟩ := lastSat_some hs hl
    exact ⟨e, hm, hle, hmax, rfl⟩

/-- `pullInputs` only reads the caches -/
theorem pullInputs_congr (cfg : Cfg) {s s1 : State} (h : OutEq s s1) (p : Sid) (c : TT) (inp : InputData) :
    pullInputs cfg s1 p c inp = pullInputs cfg s p c inp := by
  unfold pullInputs
  apply foldl_congr_mem
  intro acc e _
  simp only [h e.1]

/-- **the step request carries the history's values**: when a step of `p` begins (in a run whose output times do not go
back), the inputs sent with the request are `pullSpec` of the never-pruned history applied to the set_data / remembered /
pushed inputs -/
theorem begin_pulls_history {cfg : Cfg} (hw : WFCfg cfg) (hc : cfg.useCache = true) (hi : InitSorted cfg) (hp : PullOk cfg)
    {s s' : State} (hr : ReachM cfg s) (hnf0 : s.failed = none) {p : Sid} (h : step cfg s (.deps p) = some s') (hnf : s'.failed = none) :
    ∃ c inp0 m, s'.log = .begin p c (pullSpec cfg (fun q => histOf cfg q s.log) p c inp0) m :: s.log := by
  simp only [step, stepDeps] at h
  split at h
  · rename_i hlive
    have hpn : p < cfg.n := by
      simp only [live, Bool.and_eq_true, decide_eq_true_eq] at hlive
      exact hlive.2
    cases hpc : (s.sims p).pc with
    | waitDeps t =>
      simp only [hpc] at h
      split at h
      · cases hnext : (s.sims p).next with
        | nil => simp [hnext] at h
        | cons c rest =>
          simp only [hnext, Option.some.injEq] at h
          subst h
          -- `c` is not before the last step
          obtain ⟨hcore, _⟩ := reach_good hw hr.reach hnf0
          have hso := hcore p hpn
          have hlastc : lastTime s p ≤ (TT.time c : Int) := by
            unfold lastTime
            cases hl : (s.sims p).last with
            | none => simp only; omega
            | some t =>
              simp only
              have hb : t ∈ (s.sims p).begun := reach_lastOk hw hr.reach hnf0 p hpn t hl
              have h1 := hso.begun_le t hb
              have h2 := hso.le_next c (by rw [hnext]; exact List.mem_cons_self)
              have := TT.time_mono (TT.le_trans h1 h2)
              omega
          obtain ⟨s1, hdef⟩ : ∃ s1, s1 = s.upd p (fun x => { x with cur := some c, next := rest }) := ⟨_, rfl⟩
          have hs1 : OutEq s s1 := by rw [hdef]; exact outEq_upd _ _ _ (fun _ => rfl)
          have hlog1 : s1.log = s.log := by rw [hdef]; rfl
          have hf1 : s1.failed = none := by rw [hdef]; exact hnf0
          unfold beginStep at hnf ⊢
          simp only at hnf ⊢
          rw [← hdef] at hnf ⊢
          split
          · rename_i hbad
            rw [if_pos hbad] at hnf
            exfalso
            unfold State.fail at hnf
            rw [hf1] at hnf
            cases hnf
          · rename_i hbad
            split
            · rename_i hloop
              rw [if_neg hbad, if_pos hloop] at hnf
              exfalso
              unfold State.fail at hnf
              rw [hf1] at hnf
              cases hnf
            · refine ⟨c, (bufferTake (s1.sims p).buffer (TT.time c) ((s1.sims p).persistent.foldl
                    (fun acc e => if InputData.has acc e.1 then acc else acc ++ [e]) (s1.sims p).setData)).1,
                maxAdvance cfg (getInputData cfg s1 p c).2 p c, ?_⟩
              rw [← pull_refines_spec hw hc hi hp hr hnf0 hpn c hlastc, ← pullInputs_congr cfg hs1 p c, ← hlog1]
              rfl
      · cases h
    | init => simp [hpc] at h
    | awaitSettle a dl => simp [hpc] at h
    | inStep => simp [hpc] at h
    | inGet => simp [hpc] at h
    | done => simp [hpc] at h
  · cases h

/-! ### executable form of the run hypothesis -/

def monoActB (cfg : Cfg) (s : State) : Action → Bool
  | .dataReply p d => match (s.sims p).cur with
    | some c => (histOf cfg p s.log).all (fun e => decide (e.1 ≤ (outTimeOf c d).1))
    | none => true
  | _ => true

theorem monoActB_sound {cfg : Cfg} {s : State} {a : Action} (h : monoActB cfg s a = true) : MonoAct cfg s a := by
  intro p d c ha hcur e he
  subst ha
  simp only [monoActB, hcur, List.all_eq_true, decide_eq_true_eq] at h
  exact h e he

/-- every `get_data` reply of the run reports an output time that is not before an earlier one -/
def monoRunB (cfg : Cfg) : State → List Action → Bool
  | _, [] => true
  | s, a :: as => monoActB cfg s a && match step cfg s a with
    | some s' => monoRunB cfg s' as
    | none => true

theorem exec_reachM {cfg : Cfg} : ∀ (as : List Action) {s s' : State}, ReachM cfg s → exec cfg s as = some s' →
    monoRunB cfg s as = true → ReachM cfg s'
  | [], s, s', hr, he, _ => by
    simp only [exec, Option.some.injEq] at he
    subst he; exact hr
  | a :: as, s, s', hr, he, hm => by
    simp only [exec] at he
    simp only [monoRunB, Bool.and_eq_true] at hm
    cases hs : step cfg s a with
    | none => rw [hs] at he; cases he
    | some s1 =>
      rw [hs] at he
      simp only [hs] at hm
      exact exec_reachM as (ReachM.step hr hs (monoActB_sound hm.1)) he hm.2

end Mosaik
