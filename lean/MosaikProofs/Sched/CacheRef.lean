/-
Refinement of the cache path to the output history (C03, `cache=True`).

`histOf cfg q log` is the cache of simulator `q` as it would be if it were never pruned: the declared initial data,
then every `get_data` reply recorded in the run's log, entered the way `get_outputs` enters it (`cachePut`).
`reachM_cacheRef`: in every reachable state the real (pruned) cache gives, for every lookup a consumer can still make
(`minLast − maxShift q ≤ τ`), the same entry as the never-pruned history.  Consequently the pulled inputs of every step
are the values of the history: the newest output of the source at or before (step time − shift)
(`pull_refines_spec`).

Hypothesis on the run (`ReachM`): the output times a simulator reports never go back (the complement of the known
finding about non-monotone output times); on the configuration: the initial cache content is in key order
(`InitSorted`; its complement is the known finding about initial data of several time-shifted connections).
-/
import MosaikProofs.Sched.Cached
namespace Mosaik

/-! ### one cache entry more -/

/-- how `get_outputs` enters a reply into the cache: overwrite the entry of that time, else append -/
def cachePut (l : List (Int × OutData)) (ot : Int) (x : OutData) : List (Int × OutData) :=
  if l.any (·.1 == ot) then l.map (fun e => if e.1 == ot then (ot, x) else e) else l ++ [(ot, x)]

theorem sorted_cachePut {l : List (Int × OutData)} (hs : Sorted l) (ot : Int) (x : OutData) (h : ∀ e ∈ l, e.1 ≤ ot) :
    Sorted (cachePut l ot x) := by
  unfold cachePut
  split
  · exact sorted_replace hs ot x
  · rename_i hany
    apply sorted_append hs
    intro e he
    have := h e he
    have hne : e.1 ≠ ot := by
      intro heq
      apply hany
      rw [List.any_eq_true]
      exact ⟨e, he, by simp [heq]⟩
    omega

theorem mem_cachePut_self (l : List (Int × OutData)) (ot : Int) (x : OutData) : (ot, x) ∈ cachePut l ot x := by
  unfold cachePut
  split
  · rename_i hany
    rw [List.any_eq_true] at hany
    obtain ⟨e, he, hk⟩ := hany
    rw [List.mem_map]
    exact ⟨e, he, by simp [hk]⟩
  · simp

theorem mem_cachePut_of_ne {l : List (Int × OutData)} {ot : Int} {x : OutData} {e : Int × OutData} (he : e ∈ l) (hne : e.1 ≠ ot) :
    e ∈ cachePut l ot x := by
  unfold cachePut
  split
  · rw [List.mem_map]
    refine ⟨e, he, ?_⟩
    have : (e.1 == ot) = false := by simp [hne]
    simp [this]
  · exact List.mem_append_left _ he

theorem mem_cachePut {l : List (Int × OutData)} {ot : Int} {x : OutData} {e : Int × OutData} (h : e ∈ cachePut l ot x) :
    e = (ot, x) ∨ (e ∈ l ∧ e.1 ≠ ot) := by
  unfold cachePut at h
  split at h
  · rw [List.mem_map] at h
    obtain ⟨e0, he0, rfl⟩ := h
    by_cases hk : (e0.1 == ot) = true
    · left; simp [hk]
    · right
      simp only [hk, Bool.false_eq_true, if_false]
      exact ⟨he0, by simpa using hk⟩
  · rename_i hany
    rcases List.mem_append.mp h with h | h
    · right
      refine ⟨h, ?_⟩
      intro heq
      apply hany
      rw [List.any_eq_true]
      exact ⟨e, h, by simp [heq]⟩
    · left; simpa using h

/-- a lookup after one more entry whose time is not before any cached time -/
theorem lookup_cachePut {l : List (Int × OutData)} (hs : Sorted l) (ot : Int) (x : OutData) (h : ∀ e ∈ l, e.1 ≤ ot) (τ : Int) :
    getOutputFor (cachePut l ot x) τ = if ot ≤ τ then x else getOutputFor l τ := by
  by_cases hτ : ot ≤ τ
  · simp only [hτ, if_true]
    have hsorted := sorted_cachePut hs ot x h
    have hmem := mem_cachePut_self l ot x
    unfold getOutputFor
    rw [find?_reverse_eq_lastSat]
    cases hl : lastSat (fun (e : Int × OutData) => decide (e.1 ≤ τ)) (cachePut l ot x) with
    | none =>
      exfalso
      exact lastSat_none _ hl (ot, x) hmem hτ
    | some e =>
      obtain ⟨hmem_e, hle, hmax⟩ := lastSat_some hsorted hl
      -- `e` is the entry with the greatest key ≤ τ; every key is ≤ ot ≤ τ, so it is the new entry
      have h1 : (ot, x).1 ≤ e.1 := hmax (ot, x) hmem hτ
      have h2 : e.1 ≤ ot := by
        rcases mem_cachePut hmem_e with rfl | ⟨hin, _⟩
        · exact Int.le_refl _
        · exact h e hin
      have : e = (ot, x) := sorted_key_inj hsorted hmem_e hmem (by simp only at h1; omega)
      rw [this]
  · simp only [hτ, if_false]
    unfold cachePut
    split
    · exact getOutputFor_replace l ot x τ (by omega)
    · exact getOutputFor_append l ot x τ (by omega)

/-! ### the never-pruned history, read off the log -/

def Event.isGot : Event → Bool
  | .got .. => true
  | _ => false

/-- the cache of `q` if it were never pruned: initial content, then every `get_data` reply of the log (most recent first) -/
def histOf (cfg : Cfg) (q : Sid) : List Event → List (Int × OutData)
  | [] => (cfg.sim q).outputs0
  | .got p _ outTT data :: l => if p = q then cachePut (histOf cfg q l) (TT.time outTT : Int) data else histOf cfg q l
  | .begin .. :: l => histOf cfg q l
  | .stepped .. :: l => histOf cfg q l
  | .finished .. :: l => histOf cfg q l
  | .done .. :: l => histOf cfg q l
  | .rtWarn .. :: l => histOf cfg q l
  | .eventIgnored .. :: l => histOf cfg q l

theorem histOf_cons_noGot (cfg : Cfg) (q : Sid) (e : Event) (l : List Event) (h : e.isGot = false) :
    histOf cfg q (e :: l) = histOf cfg q l := by
  cases e <;> first | rfl | (simp [Event.isGot] at h)

/-- the log grew by events that are not `get_data` replies -/
def LogExt (s s' : State) : Prop := ∃ pre, s'.log = pre ++ s.log ∧ ∀ e ∈ pre, e.isGot = false

theorem LogExt.refl (s : State) : LogExt s s := ⟨[], rfl, fun _ h => by cases h⟩
theorem LogExt.trans {s s' s'' : State} (h1 : LogExt s s') (h2 : LogExt s' s'') : LogExt s s'' := by
  obtain ⟨p1, e1, n1⟩ := h1
  obtain ⟨p2, e2, n2⟩ := h2
  refine ⟨p2 ++ p1, by rw [e2, e1, List.append_assoc], ?_⟩
  intro e he
  rcases List.mem_append.mp he with h | h
  · exact n2 e h
  · exact n1 e h
theorem LogExt.of_log_eq {s s' : State} (h : s'.log = s.log) : LogExt s s' := ⟨[], by simp [h], fun _ h => by cases h⟩

theorem LogExt.hist {cfg : Cfg} {s s' : State} (h : LogExt s s') (q : Sid) : histOf cfg q s'.log = histOf cfg q s.log := by
  obtain ⟨pre, he, hn⟩ := h
  rw [he]
  clear he
  induction pre with
  | nil => rfl
  | cons e pre ih =>
    rw [List.cons_append, histOf_cons_noGot cfg q e _ (hn e List.mem_cons_self)]
    exact ih (fun e' he' => hn e' (List.mem_cons_of_mem _ he'))

theorem logExt_upd (s : State) (p : Sid) (f : SimSt → SimSt) : LogExt s (s.upd p f) := LogExt.of_log_eq rfl
theorem logExt_emit (s : State) (e : Event) (h : e.isGot = false) : LogExt s (s.emit e) :=
  ⟨[e], rfl, fun e' he' => by simp only [List.mem_singleton] at he'; rw [he']; exact h⟩
theorem logExt_fail (s : State) (e : SchedErr) : LogExt s (s.fail e) := by
  apply LogExt.of_log_eq
  unfold State.fail
  split <;> rfl

theorem advance_logExt (cfg : Cfg) (s : State) (q : Sid) : LogExt s (advance cfg s q) := by
  unfold advance; simp only
  split
  · exact logExt_fail _ _
  · exact logExt_upd _ _ _

theorem advanceAll_logExt (cfg : Cfg) (s : State) : LogExt s (advanceAll cfg s) := by
  unfold advanceAll
  generalize List.range cfg.n = l
  induction l generalizing s with
  | nil => exact LogExt.refl s
  | cons q l ih =>
    simp only [List.foldl_cons]
    split
    · exact ih s
    · exact (advance_logExt cfg s q).trans (ih _)

theorem settle_logExt (cfg : Cfg) (s : State) (p : Sid) : LogExt s (settle cfg s p) := by
  unfold settle; simp only
  split
  · exact (logExt_upd _ _ _).trans (logExt_emit _ _ rfl)
  · split
    · split
      · exact logExt_upd _ _ _
      · exact logExt_upd _ _ _
    · exact logExt_upd _ _ _

theorem schedule_logExt (s : State) (q : Sid) (t : TT) : LogExt s (schedule s q t) := by
  unfold schedule; simp only
  split
  · exact LogExt.refl s
  · exact logExt_upd _ _ _

theorem notify_logExt (cfg : Cfg) (s : State) (p : Sid) : LogExt s (notify cfg s p) := by
  unfold notify
  generalize (cfg.sim p).triggers = l
  suffices h : ∀ (st : State), LogExt s st → LogExt s (l.foldl (fun st (tr : Port × Sid × TI) =>
      if OutData.has (s.sims p).data tr.1 then schedule st tr.2.1 (TI.act (s.sims p).outTime tr.2.2) else st) st) from h s (LogExt.refl s)
  induction l with
  | nil => intro st h; exact h
  | cons tr l ih =>
    intro st h
    simp only [List.foldl_cons]
    apply ih
    split
    · exact h.trans (schedule_logExt _ _ _)
    · exact h

theorem prune_logExt (cfg : Cfg) (s : State) : LogExt s (prune cfg s) := LogExt.of_log_eq rfl

theorem clearCur_logExt (s : State) (p : Sid) (c : TT) : LogExt s (clearCur s p c) :=
  (logExt_upd _ _ _).trans (logExt_emit _ _ rfl)

theorem rtCheck_logExt (cfg : Cfg) (s : State) (p : Sid) (c : TT) : LogExt s (rtCheck cfg s p c) := by
  unfold rtCheck
  split
  · exact LogExt.refl s
  · split
    · split
      · exact logExt_fail _ _
      · exact logExt_emit _ _ rfl
    · exact LogExt.refl s

/-! ### the invariant -/

def LastMono (s s' : State) : Prop := ∀ q, lastTime s q ≤ lastTime s' q

theorem LastMono.of_lastEq {s s' : State} (h : LastEq s s') : LastMono s s' := by
  intro q; unfold lastTime; rw [h q]; exact Int.le_refl _
theorem LastMono.trans {s s' s'' : State} (h1 : LastMono s s') (h2 : LastMono s' s'') : LastMono s s'' :=
  fun q => Int.le_trans (h1 q) (h2 q)

theorem foldl_min_mono (f g : Sid → Int) (h : ∀ p, f p ≤ g p) : ∀ (l : List Sid) (m m' : Int), m ≤ m' →
    l.foldl (fun m p => min m (f p)) m ≤ l.foldl (fun m p => min m (g p)) m'
  | [], _, _, hm => hm
  | p :: l, m, m', hm => by
    simp only [List.foldl_cons]
    apply foldl_min_mono f g h l
    have := h p
    omega

theorem minLast_mono (cfg : Cfg) {s s' : State} (h : LastMono s s') : minLast cfg s ≤ minLast cfg s' := by
  unfold minLast
  exact foldl_min_mono _ _ h _ _ _ (h 0)

theorem minLast_eq (cfg : Cfg) {s s' : State} (h : LastEq s s') : minLast cfg s' = minLast cfg s := by
  unfold minLast lastTime
  have : ∀ q, (s'.sims q).last = (s.sims q).last := h
  simp only [this]

/-- the real cache against the never-pruned history -/
structure CacheRef (cfg : Cfg) (s : State) : Prop where
  sortedO : ∀ q, Sorted (s.sims q).outputs
  sortedH : ∀ q, Sorted (histOf cfg q s.log)
  sub : ∀ q, ∀ e ∈ (s.sims q).outputs, e ∈ histOf cfg q s.log
  look : ∀ q, q < cfg.n → ∀ τ, minLast cfg s - maxShift cfg q ≤ τ →
    getOutputFor (s.sims q).outputs τ = getOutputFor (histOf cfg q s.log) τ

theorem cacheRef_frame {cfg : Cfg} {s s' : State} (h : CacheRef cfg s) (ho : OutEq s s') (hl : LogExt s s') (hm : LastMono s s') :
    CacheRef cfg s' := by
  refine ⟨fun q => by rw [ho q]; exact h.sortedO q, fun q => by rw [hl.hist q]; exact h.sortedH q,
    fun q e he => by rw [hl.hist q]; rw [ho q] at he; exact h.sub q e he, ?_⟩
  intro q hq τ hτ
  rw [ho q, hl.hist q]
  apply h.look q hq τ
  have := minLast_mono cfg hm
  omega

theorem sorted_filter {l : List (Int × OutData)} (hs : Sorted l) (f : Int × OutData → Bool) : Sorted (l.filter f) := by
  unfold Sorted at *
  exact hs.sublist List.filter_sublist

theorem cacheRef_prune {cfg : Cfg} {s : State} (h : CacheRef cfg s) : CacheRef cfg (prune cfg s) := by
  have hlog : (prune cfg s).log = s.log := rfl
  have hout : ∀ q, ∃ f, ((prune cfg s).sims q).outputs = (s.sims q).outputs.filter f := by
    intro q
    by_cases hq : q < cfg.n
    · rw [prune_outputs cfg s hq]
      exact ⟨_, rfl⟩
    · refine ⟨fun _ => true, ?_⟩
      have hall : ∀ (l : List (Int × OutData)), l.filter (fun _ => true) = l := by
        intro l; induction l with
        | nil => rfl
        | cons a l ih => simp [List.filter_cons, ih]
      rw [hall]
      unfold prune
      simp [hq]
  refine ⟨?_, fun q => by rw [hlog]; exact h.sortedH q, ?_, ?_⟩
  · intro q
    obtain ⟨f, hf⟩ := hout q
    rw [hf]
    exact sorted_filter (h.sortedO q) f
  · intro q e he
    obtain ⟨f, hf⟩ := hout q
    rw [hf] at he
    rw [hlog]
    exact h.sub q e (List.mem_filter.mp he).1
  · intro q hq τ hτ
    rw [minLast_eq cfg (prune_lastEq cfg s)] at hτ
    rw [hlog, prune_outputs cfg s hq, prune_keeps_lookups (h.sortedO q) _ τ hτ]
    exact h.look q hq τ hτ

/-! ### a `get_data` reply -/

theorem storeOutputs_outputs (cfg : Cfg) (s : State) (p : Sid) (ot : Int) (d : DataReply) (hc : cfg.useCache = true) (q : Sid) :
    ((storeOutputs cfg s p ot d).sims q).outputs = if q = p then cachePut (s.sims p).outputs ot d.data else (s.sims q).outputs := by
  unfold storeOutputs
  simp only [hc, if_true]
  have rest : ∀ s2 : State, OutEq s2 (((cfg.sim p).push.foldl (fun st (e : Port × Sid × TI × Port) =>
        match OutData.get? d.data e.1 with
        | .none => st
        | some v => st.upd e.2.1 fun y =>
            { y with buffer := insertBuf { time := ot.toNat + tier e.2.2.1.tiers 0, ctr := y.ctr,
                                           key := { eid := e.2.2.2.1, attr := e.2.2.2.2, ssid := p, seid := e.1.1 }, val := v } y.buffer,
                     ctr := y.ctr + 1 }) s2).upd p fun x => { x with data := d.data }) := by
    intro s2
    refine OutEq.trans ?_ (outEq_upd _ p _ (fun _ => rfl))
    apply foldl_inv (fun st => OutEq s2 st)
    · exact OutEq.refl s2
    · intro st e _ h
      split
      · exact h
      · exact h.trans (outEq_upd _ _ _ (fun _ => rfl))
  refine (rest _ q).trans ?_
  rw [State.upd_sims]
  split
  · rename_i hqp
    subst hqp
    rfl
  · rfl

theorem storeOutputs_logExt (cfg : Cfg) (s : State) (p : Sid) (ot : Int) (d : DataReply) : LogExt s (storeOutputs cfg s p ot d) := by
  unfold storeOutputs
  simp only
  refine LogExt.trans ?_ (logExt_upd _ p _)
  have h2 : LogExt s (if cfg.useCache then s.upd p fun x =>
      { x with outputs := if x.outputs.any (·.1 == ot) then x.outputs.map (fun e => if e.1 == ot then (ot, d.data) else e)
                          else x.outputs ++ [(ot, d.data)] } else s) := by
    split
    · exact logExt_upd _ _ _
    · exact LogExt.refl s
  refine LogExt.trans h2 ?_
  apply foldl_inv (fun st => LogExt _ st)
  · exact LogExt.refl _
  · intro st e _ h
    split
    · exact h
    · exact h.trans (logExt_upd _ _ _)

/-- entering one reply into the real cache and into the history keeps them in step -/
theorem cacheRef_put {cfg : Cfg} {s s1 s2 : State} {p : Sid} {ot : Int} {x : OutData} (h : CacheRef cfg s)
    (hmono : ∀ e ∈ histOf cfg p s.log, e.1 ≤ ot)
    (hout : ∀ q, (s2.sims q).outputs = if q = p then cachePut (s.sims p).outputs ot x else (s.sims q).outputs)
    (hhist : ∀ q, histOf cfg q s2.log = if q = p then cachePut (histOf cfg p s.log) ot x else histOf cfg q s.log)
    (hlast : LastEq s s2) : CacheRef cfg s2 := by
  have hmonoO : ∀ e ∈ (s.sims p).outputs, e.1 ≤ ot := fun e he => hmono e (h.sub p e he)
  refine ⟨?_, ?_, ?_, ?_⟩
  · intro q
    rw [hout q]
    split
    · exact sorted_cachePut (h.sortedO p) ot x hmonoO
    · exact h.sortedO q
  · intro q
    rw [hhist q]
    split
    · exact sorted_cachePut (h.sortedH p) ot x hmono
    · exact h.sortedH q
  · intro q e he
    rw [hout q] at he
    rw [hhist q]
    split at he
    · rename_i hqp
      simp only [hqp, if_true]
      rcases mem_cachePut he with rfl | ⟨hin, hne⟩
      · exact mem_cachePut_self _ _ _
      · exact mem_cachePut_of_ne (h.sub p e hin) hne
    · rename_i hqp
      simp only [hqp, if_false]
      exact h.sub q e he
  · intro q hq τ hτ
    rw [minLast_eq cfg hlast] at hτ
    rw [hout q, hhist q]
    split
    · rename_i hqp
      subst hqp
      rw [lookup_cachePut (h.sortedO q) ot x hmonoO, lookup_cachePut (h.sortedH q) ot x hmono, h.look q hq τ hτ]
    · exact h.look q hq τ hτ

end Mosaik
