/-
The cache path of the commutation fact (C04, default configuration `cache=True`).

`reach_lastOk`: `last_step` of a simulator is one of the steps it has begun.
`lookup_stable`: an action does not change the cache entry a cached connection into `q` reads for
the step `c` that `q` is ready to begin — a `get_data` reply only adds (or overwrites) the entry of
its own output time, which lies after what `q` reads; pruning keeps everything a consumer can still
read (`prune_state_lookups`).  Hypotheses: the source's output times have not gone back (`Sorted`
cache), the cached connections are covered by the input-delay table (`PullOk`), flat configuration.
-/
import MosaikProofs.Sched.BufferSrc
import MosaikProofs.Sched.Prune
namespace Mosaik

/-! ### `last_step` -/

def LastEq (s s' : State) : Prop := ∀ q, (s'.sims q).last = (s.sims q).last

theorem LastEq.refl (s : State) : LastEq s s := fun _ => rfl
theorem LastEq.trans {s s' s'' : State} (h1 : LastEq s s') (h2 : LastEq s' s'') : LastEq s s'' := fun q => (h2 q).trans (h1 q)
theorem lastEq_upd (s : State) (p : Sid) (f : SimSt → SimSt) (hf : ∀ x, (f x).last = x.last) : LastEq s (s.upd p f) := by
  intro q; rw [State.upd_sims]; split
  · exact hf _
  · rfl
theorem lastEq_emit (s : State) (e : Event) : LastEq s (s.emit e) := fun _ => rfl
theorem lastEq_fail (s : State) (e : SchedErr) : LastEq s (s.fail e) := fun q => by rw [State.fail_sims]

theorem advance_lastEq (cfg : Cfg) (s : State) (q : Sid) : LastEq s (advance cfg s q) := by
  unfold advance; simp only; split
  · exact lastEq_fail _ _
  · exact lastEq_upd _ _ _ (fun _ => rfl)

theorem advanceAll_lastEq (cfg : Cfg) (s : State) : LastEq s (advanceAll cfg s) := by
  unfold advanceAll
  apply foldl_inv (fun st => LastEq s st)
  · exact LastEq.refl s
  · intro st q _ h; split
    · exact h
    · exact h.trans (advance_lastEq cfg st q)

theorem settle_lastEq (cfg : Cfg) (s : State) (p : Sid) : LastEq s (settle cfg s p) := by
  unfold settle; simp only
  have key : ∀ pc : PC, LastEq s (s.upd p fun x => { x with pc := pc }) := fun pc => lastEq_upd _ _ _ (fun _ => rfl)
  split
  · exact (key _).trans (lastEq_emit _ _)
  · split
    · split
      · exact key _
      · exact key _
    · exact key _

theorem schedule_lastEq (s : State) (q : Sid) (t : TT) : LastEq s (schedule s q t) := by
  unfold schedule; simp only; split
  · exact LastEq.refl s
  · exact lastEq_upd _ _ _ (fun _ => rfl)

theorem notify_lastEq (cfg : Cfg) (s : State) (p : Sid) : LastEq s (notify cfg s p) := by
  unfold notify
  apply foldl_inv (fun st => LastEq s st)
  · exact LastEq.refl s
  · intro st tr _ h; split
    · exact h.trans (schedule_lastEq _ _ _)
    · exact h

theorem prune_lastEq (cfg : Cfg) (s : State) : LastEq s (prune cfg s) := by
  intro q; unfold prune; simp only; split <;> rfl

theorem clearCur_lastEq (s : State) (p : Sid) (c : TT) : LastEq s (clearCur s p c) := by
  unfold clearCur
  exact (lastEq_upd s p (fun x => { x with cur := .none }) (fun _ => rfl)).trans (lastEq_emit _ _)

theorem finish_lastEq (cfg : Cfg) (s : State) (p : Sid) (c : TT) : LastEq s (finish cfg s p c) := by
  have h3 : LastEq s (advanceAll cfg (notify cfg (clearCur s p c) p)) :=
    ((clearCur_lastEq s p c).trans (notify_lastEq cfg _ p)).trans (advanceAll_lastEq cfg _)
  unfold finish; simp only
  split
  · exact h3
  · split
    · exact (h3.trans (prune_lastEq cfg _)).trans (settle_lastEq cfg _ p)
    · exact h3.trans (settle_lastEq cfg _ p)

theorem afterStep_lastEq (cfg : Cfg) (s : State) (p : Sid) (c : TT) : LastEq s (afterStep cfg s p c) := by
  have h3 : LastEq s (rtCheck cfg s p c) := fun q => by rw [rtCheck_sims]
  unfold afterStep; simp only
  split
  · exact h3
  · split
    · exact h3.trans (finish_lastEq cfg _ p c)
    · exact h3.trans (lastEq_upd _ _ _ (fun _ => rfl))

theorem storeOutputs_lastEq (cfg : Cfg) (s : State) (p : Sid) (ot : Int) (d : DataReply) : LastEq s (storeOutputs cfg s p ot d) := by
  unfold storeOutputs
  simp only
  refine LastEq.trans ?_ (lastEq_upd _ p _ (fun _ => rfl))
  have h0 : LastEq s (if cfg.useCache then s.upd p fun x =>
      { x with outputs := if x.outputs.any (·.1 == ot) then x.outputs.map (fun e => if e.1 == ot then (ot, d.data) else e)
                          else x.outputs ++ [(ot, d.data)] } else s) := by
    split
    · exact lastEq_upd _ _ _ (fun _ => rfl)
    · exact LastEq.refl s
  apply foldl_inv (fun st => LastEq s st)
  · exact h0
  · intro st e _ h
    split
    · exact h
    · exact h.trans (lastEq_upd _ _ _ (fun _ => rfl))

/-- `last_step` is one of the steps begun -/
def LastOk (s : State) (q : Sid) : Prop := ∀ t, (s.sims q).last = some t → t ∈ (s.sims q).begun

theorem reach_lastOk {cfg : Cfg} (hw : WFCfg cfg) {s : State} (hr : Reach cfg s) : s.failed = none → ∀ q, q < cfg.n → LastOk s q := by
  induction hr with
  | init => intro _ q _ t ht; simp [initState, initSim] at ht
  | @step s s' a hr hstep ih =>
    intro hnf q hq
    have hf0 : s.failed = none := by
      cases hf : s.failed with
      | none => rfl
      | some e => rw [step_none_of_failed (by rw [hf]; rfl)] at hstep; cases hstep
    have hold := ih hf0 q hq
    obtain ⟨hcore, _⟩ := reach_good hw hr hf0
    -- begun only grows
    have hgrow : ∀ t, t ∈ (s.sims q).begun → t ∈ (s'.sims q).begun := by
      intro t ht
      rcases step_frame hw (reach_good hw hr) hstep hnf with hl | ⟨p, c, _, _, _, _, _, _, _, _, _, hbeg, _, hoth⟩
      · rw [hl.begun]; exact ht
      · by_cases hqp : q = p
        · subst hqp; rw [hbeg]; exact List.mem_cons_of_mem _ ht
        · rw [hoth q hqp]; exact ht
    have ofEq : LastEq s s' → LastOk s' q := fun he t ht => hgrow t (hold t (by rw [← he q]; exact ht))
    cases a with
    | start p =>
      simp only [step, stepStart] at hstep
      split at hstep
      · split at hstep
        · cases hstep; exact ofEq (advance_lastEq cfg s p)
        · cases hstep; exact ofEq ((advance_lastEq cfg s p).trans (settle_lastEq cfg _ p))
      · cases hstep
    | wake p =>
      simp only [step, stepWake] at hstep
      split at hstep
      · cases hpc : (s.sims p).pc with
        | awaitSettle a dl =>
          simp only [hpc] at hstep
          split at hstep
          · have h1 : LastEq s (if cfg.rt.isSome then advance cfg (s.upd p fun y => { y with newer := false }) p
                else (s.upd p fun y => { y with newer := false })) := by
              have h0 : LastEq s (s.upd p fun y => { y with newer := false }) := lastEq_upd _ _ _ (fun _ => rfl)
              split
              · exact h0.trans (advance_lastEq cfg _ p)
              · exact h0
            generalize (if cfg.rt.isSome then advance cfg (s.upd p fun y => { y with newer := false }) p
                else (s.upd p fun y => { y with newer := false })) = s2 at hstep h1
            by_cases hfl2 : s2.failed.isSome = true
            · simp only [hfl2, if_true, Option.some.injEq] at hstep
              subst hstep; exact ofEq h1
            · simp only [hfl2, Bool.false_eq_true, if_false, Option.some.injEq] at hstep
              subst hstep; exact ofEq (h1.trans (settle_lastEq cfg _ p))
          · cases hstep
        | init => simp [hpc] at hstep
        | waitDeps t => simp [hpc] at hstep
        | inStep => simp [hpc] at hstep
        | inGet => simp [hpc] at hstep
        | done => simp [hpc] at hstep
      · cases hstep
    | deps p =>
      simp only [step, stepDeps] at hstep
      split at hstep
      · cases hpc : (s.sims p).pc with
        | waitDeps t =>
          simp only [hpc] at hstep
          split at hstep
          · cases hnext : (s.sims p).next with
            | nil => simp [hnext] at hstep
            | cons c rest =>
              simp only [hnext, Option.some.injEq] at hstep
              subst hstep
              apply ofEq
              intro r
              by_cases hrp : r = p
              · subst hrp
                unfold beginStep
                split
                · rw [State.fail_sims]; simp
                · split
                  · rw [State.fail_sims]; simp
                  · simp [getInputData]
              · rw [beginStep_other cfg s p c rest hrp]
          · cases hstep
        | init => simp [hpc] at hstep
        | awaitSettle a dl => simp [hpc] at hstep
        | inStep => simp [hpc] at hstep
        | inGet => simp [hpc] at hstep
        | done => simp [hpc] at hstep
      · cases hstep
    | setData p target entries =>
      simp only [step, stepSetData] at hstep
      split at hstep
      · split at hstep
        · cases hstep; exact ofEq (lastEq_fail _ _)
        · cases hstep
          exact ofEq (lastEq_upd s target
            (fun x => { x with setData := entries.foldl (fun acc e => InputData.set acc e.1 e.2) x.setData }) (fun _ => rfl))
      · cases hstep
    | getDataReq p target =>
      simp only [step, stepGetDataReq] at hstep
      split at hstep
      · split at hstep
        · cases hstep; exact ofEq (lastEq_fail _ _)
        · cases hstep; exact ofEq (LastEq.refl s)
      · cases hstep
    | setEvent p t =>
      simp only [step, stepSetEvent] at hstep
      split at hstep
      · split at hstep
        · cases hstep; exact ofEq (lastEq_fail _ _)
        · split at hstep
          · cases hstep; exact ofEq (schedule_lastEq _ _ _)
          · cases hstep; exact ofEq (lastEq_emit _ _)
      · cases hstep
    | stepReply p r =>
      simp only [step, stepStepReply] at hstep
      split at hstep
      · rename_i hguard
        simp only [Bool.and_eq_true, beq_iff_eq] at hguard
        have hp := live_lt hguard.1
        cases hcur : (s.sims p).cur with
        | none => simp [hcur] at hstep
        | some c =>
          simp only [hcur, Option.some.injEq] at hstep
          subst hstep
          -- the only place where `last` changes: `last := some c`, the step in flight
          have h1 : LastOk ((s.upd p fun y => { y with last := some c }).emit (.stepped p c)) q ∧
              (((s.upd p fun y => { y with last := some c }).emit (.stepped p c)).sims q).begun = (s.sims q).begun := by
            constructor
            · intro t ht
              simp only [State.emit_sims] at ht ⊢
              rw [State.upd_sims] at ht ⊢
              split at ht
              · rename_i hqp
                simp only [Option.some.injEq] at ht
                subst ht
                subst hqp
                simp only [if_true]
                exact (hcore q hp).cur_begun c hcur
              · rename_i hqp
                simp only [hqp, if_false]
                exact hold t ht
            · simp only [State.emit_sims]; rw [State.upd_sims]; split <;> rfl
          -- everything after it keeps `last`
          have fin : ∀ s2 : State, LastEq ((s.upd p fun y => { y with last := some c }).emit (.stepped p c)) s2 →
              (∀ t, t ∈ (s.sims q).begun → t ∈ (s2.sims q).begun) → LastOk s2 q := by
            intro s2 he hb t ht
            rw [he q] at ht
            have := h1.1 t ht
            rw [h1.2] at this
            exact hb t this
          apply fin _ _ hgrow
          unfold processStepReply
          simp only
          cases r with
          | bad => exact lastEq_fail _ _
          | none =>
            simp only
            split
            · exact lastEq_fail _ _
            · exact afterStep_lastEq cfg _ p c
          | int n =>
            simp only
            split
            · exact lastEq_fail _ _
            · split
              · exact (schedule_lastEq _ _ _).trans (afterStep_lastEq cfg _ p c)
              · exact afterStep_lastEq cfg _ p c
      · cases hstep
    | dataReply p d =>
      simp only [step, stepDataReply] at hstep
      split at hstep
      · cases hcur : (s.sims p).cur with
        | none => simp [hcur] at hstep
        | some c =>
          simp only [hcur, Option.some.injEq] at hstep
          subst hstep
          have h1 : LastEq s ((s.upd p fun y => { y with outTime := (outTimeOf c d).2 }).emit (.got p c (outTimeOf c d).2 d.data)) :=
            (lastEq_upd s p (fun y => { y with outTime := (outTimeOf c d).2 }) (fun _ => rfl)).trans (lastEq_emit _ _)
          apply ofEq
          unfold processDataReply
          simp only
          split
          · exact h1.trans (lastEq_fail _ _)
          · exact (h1.trans (storeOutputs_lastEq cfg _ p _ d)).trans (finish_lastEq cfg _ p c)
      · cases hstep
    | tick n =>
      simp only [step, stepTick] at hstep
      split at hstep
      · cases hstep
      · cases hstep; exact ofEq (LastEq.refl s)


/-! ### the output cache -/

def OutEq (s s' : State) : Prop := ∀ q, (s'.sims q).outputs = (s.sims q).outputs

theorem OutEq.refl (s : State) : OutEq s s := fun _ => rfl
theorem OutEq.trans {s s' s'' : State} (h1 : OutEq s s') (h2 : OutEq s' s'') : OutEq s s'' := fun q => (h2 q).trans (h1 q)
theorem outEq_upd (s : State) (p : Sid) (f : SimSt → SimSt) (hf : ∀ x, (f x).outputs = x.outputs) : OutEq s (s.upd p f) := by
  intro q; rw [State.upd_sims]; split
  · exact hf _
  · rfl
theorem outEq_emit (s : State) (e : Event) : OutEq s (s.emit e) := fun _ => rfl
theorem outEq_fail (s : State) (e : SchedErr) : OutEq s (s.fail e) := fun q => by rw [State.fail_sims]

theorem advance_outEq (cfg : Cfg) (s : State) (q : Sid) : OutEq s (advance cfg s q) := by
  unfold advance; simp only; split
  · exact outEq_fail _ _
  · exact outEq_upd _ _ _ (fun _ => rfl)

theorem advanceAll_outEq (cfg : Cfg) (s : State) : OutEq s (advanceAll cfg s) := by
  unfold advanceAll
  apply foldl_inv (fun st => OutEq s st)
  · exact OutEq.refl s
  · intro st q _ h; split
    · exact h
    · exact h.trans (advance_outEq cfg st q)

theorem settle_outEq (cfg : Cfg) (s : State) (p : Sid) : OutEq s (settle cfg s p) := by
  unfold settle; simp only
  have key : ∀ pc : PC, OutEq s (s.upd p fun x => { x with pc := pc }) := fun pc => outEq_upd _ _ _ (fun _ => rfl)
  split
  · exact (key _).trans (outEq_emit _ _)
  · split
    · split
      · exact key _
      · exact key _
    · exact key _

theorem schedule_outEq (s : State) (q : Sid) (t : TT) : OutEq s (schedule s q t) := by
  unfold schedule; simp only; split
  · exact OutEq.refl s
  · exact outEq_upd _ _ _ (fun _ => rfl)

theorem notify_outEq (cfg : Cfg) (s : State) (p : Sid) : OutEq s (notify cfg s p) := by
  unfold notify
  apply foldl_inv (fun st => OutEq s st)
  · exact OutEq.refl s
  · intro st tr _ h; split
    · exact h.trans (schedule_outEq _ _ _)
    · exact h

theorem clearCur_outEq (s : State) (p : Sid) (c : TT) : OutEq s (clearCur s p c) := by
  unfold clearCur
  exact (outEq_upd s p (fun x => { x with cur := .none }) (fun _ => rfl)).trans (outEq_emit _ _)


/-- the lookups in `L` (source simulator, time) give the same entry in both states -/
def LookEq (L : List (Sid × Int)) (s s' : State) : Prop :=
  ∀ x ∈ L, getOutputFor (s'.sims x.1).outputs x.2 = getOutputFor (s.sims x.1).outputs x.2

theorem LookEq.of_outEq {L : List (Sid × Int)} {s s' : State} (h : OutEq s s') : LookEq L s s' := fun x _ => by rw [h x.1]
theorem LookEq.trans {L : List (Sid × Int)} {s s' s'' : State} (h1 : LookEq L s s') (h2 : LookEq L s' s'') : LookEq L s s'' :=
  fun x hx => (h2 x hx).trans (h1 x hx)

theorem getOutputFor_append (l : List (Int × OutData)) (ot : Int) (x : OutData) (τ : Int) (h : τ < ot) :
    getOutputFor (l ++ [(ot, x)]) τ = getOutputFor l τ := by
  unfold getOutputFor
  rw [List.reverse_append]
  simp only [List.reverse_cons, List.reverse_nil, List.nil_append, List.singleton_append, List.find?_cons]
  have : decide ((ot, x).1 ≤ τ) = false := by simp; omega
  rw [this]

theorem getOutputFor_replace (l : List (Int × OutData)) (ot : Int) (x : OutData) (τ : Int) (h : τ < ot) :
    getOutputFor (l.map (fun e => if e.1 == ot then (ot, x) else e)) τ = getOutputFor l τ := by
  unfold getOutputFor
  rw [← List.map_reverse, List.find?_map]
  have hp : ((fun (e : Int × OutData) => decide (e.1 ≤ τ)) ∘ fun e => if e.1 == ot then (ot, x) else e) =
      fun (e : Int × OutData) => decide (e.1 ≤ τ) := by
    funext e
    simp only [Function.comp]
    split
    · rename_i he
      simp only [beq_iff_eq] at he
      rw [he]
    · rfl
  rw [hp]
  cases hf : l.reverse.find? (fun (e : Int × OutData) => decide (e.1 ≤ τ)) with
  | none => rfl
  | some e0 =>
    have hk := List.find?_some hf
    simp only [decide_eq_true_eq] at hk
    simp only [Option.map_some]
    have : (e0.1 == ot) = false := by
      cases hb : (e0.1 == ot) with
      | false => rfl
      | true => simp only [beq_iff_eq] at hb; omega
    simp [this]

theorem sorted_append {l : List (Int × OutData)} (hs : Sorted l) (ot : Int) (x : OutData) (h : ∀ e ∈ l, e.1 < ot) :
    Sorted (l ++ [(ot, x)]) := by
  unfold Sorted at *
  rw [List.pairwise_append]
  refine ⟨hs, List.pairwise_singleton _ _, ?_⟩
  intro a ha b hb
  simp only [List.mem_singleton] at hb
  subst hb
  exact h a ha

theorem sorted_replace {l : List (Int × OutData)} (hs : Sorted l) (ot : Int) (x : OutData) :
    Sorted (l.map (fun e => if e.1 == ot then (ot, x) else e)) := by
  unfold Sorted at *
  rw [List.pairwise_map]
  refine hs.imp ?_
  intro a b hab
  have ha : (if a.1 == ot then (ot, x) else a).1 = a.1 := by
    split
    · rename_i h; simp only [beq_iff_eq] at h; exact h.symm
    · rfl
  have hb : (if b.1 == ot then (ot, x) else b).1 = b.1 := by
    split
    · rename_i h; simp only [beq_iff_eq] at h; exact h.symm
    · rfl
  rw [ha, hb]; exact hab

/-- what `get_outputs` does to the caches: only `p`'s own, at its output time; everything read before that time and
the order of the keys survive -/
theorem storeOutputs_cache (cfg : Cfg) (s : State) (p : Sid) (ot : Int) (d : DataReply) (L : List (Sid × Int))
    (hL : ∀ x ∈ L, x.1 = p → x.2 < ot) (hmono : ∀ e ∈ (s.sims p).outputs, e.1 ≤ ot) (hsorted : ∀ r, Sorted (s.sims r).outputs) :
    LookEq L s (storeOutputs cfg s p ot d) ∧ ∀ r, Sorted ((storeOutputs cfg s p ot d).sims r).outputs := by
  unfold storeOutputs
  simp only
  -- the buffer fold and the final `data` update do not touch `outputs`
  have rest : ∀ s2 : State, OutEq s2 (((cfg.sim p).push.foldl (fun st (e : Port × Sid × TI × Port) =>
        match OutData.get? d.data e.1 with
        | .none => st
        | some v => st.upd e.2.1 fun y =>
            { y with buffer := insertBuf { time := ot.toNat + tier e.2.2.1.tiers 0, ctr := y.ctr,
                                           key := { eid := e.2.2.2.1, attr := e.2.2.2.2, ssid := p, seid := e.1.1 }, val := v } y.buffer,
                     ctr := y.ctr + 1 }) s2).upd p fun x => { x with data := d.data }) := by
    intro s2
    refine OutEq.trans ?_ (outEq_upd _ p _ (fun _ => rfl))
    apply foldl_inv (fun st => OutEq s2 st)
    · exact OutEq.refl s2
    · intro st e _ h
      split
      · exact h
      · exact h.trans (outEq_upd _ _ _ (fun _ => rfl))
  have fromS2 : ∀ s2 : State, LookEq L s s2 → (∀ r, Sorted (s2.sims r).outputs) →
      LookEq L s (((cfg.sim p).push.foldl (fun st (e : Port × Sid × TI × Port) =>
        match OutData.get? d.data e.1 with
        | .none => st
        | some v => st.upd e.2.1 fun y =>
            { y with buffer := insertBuf { time := ot.toNat + tier e.2.2.1.tiers 0, ctr := y.ctr,
                                           key := { eid := e.2.2.2.1, attr := e.2.2.2.2, ssid := p, seid := e.1.1 }, val := v } y.buffer,
                     ctr := y.ctr + 1 }) s2).upd p fun x => { x with data := d.data }) ∧
      ∀ r, Sorted ((((cfg.sim p).push.foldl (fun st (e : Port × Sid × TI × Port) =>
        match OutData.get? d.data e.1 with
        | .none => st
        | some v => st.upd e.2.1 fun y =>
            { y with buffer := insertBuf { time := ot.toNat + tier e.2.2.1.tiers 0, ctr := y.ctr,
                                           key := { eid := e.2.2.2.1, attr := e.2.2.2.2, ssid := p, seid := e.1.1 }, val := v } y.buffer,
                     ctr := y.ctr + 1 }) s2).upd p fun x => { x with data := d.data }).sims r).outputs := by
    intro s2 hl hso
    exact ⟨hl.trans (LookEq.of_outEq (rest s2)), fun r => by rw [rest s2 r]; exact hso r⟩
  split
  · apply fromS2
    · intro x hx
      rw [State.upd_sims]
      split
      · rename_i hxp
        simp only
        rw [hxp]
        split
        · exact getOutputFor_replace _ ot d.data x.2 (hL x hx hxp)
        · exact getOutputFor_append _ ot d.data x.2 (hL x hx hxp)
      · rfl
    · intro r
      rw [State.upd_sims]
      split
      · rename_i hrp
        simp only
        rw [hrp]
        split
        · exact sorted_replace (hsorted p) ot d.data
        · rename_i hany
          apply sorted_append (hsorted p)
          intro e he
          have h1 := hmono e he
          have h2 : e.1 ≠ ot := by
            intro heq
            apply hany
            rw [List.any_eq_true]
            exact ⟨e, he, by simp [heq]⟩
          omega
      · exact hsorted r
  · exact fromS2 s (fun _ _ => rfl) hsorted

/-! ### lookups through a whole action -/

theorem finish_look {cfg : Cfg} {s : State} {p : Sid} {c : TT} {L : List (Sid × Int)} {q : Sid}
    (hsorted : ∀ r, Sorted (s.sims r).outputs)
    (hps : ∀ st, (st.sims q).last = (s.sims q).last → (∀ r, Sorted (st.sims r).outputs) → LookEq L st (prune cfg st)) :
    LookEq L s (finish cfg s p c) := by
  have ho : OutEq s (advanceAll cfg (notify cfg (clearCur s p c) p)) :=
    ((clearCur_outEq s p c).trans (notify_outEq cfg _ p)).trans (advanceAll_outEq cfg _)
  have hl : LastEq s (advanceAll cfg (notify cfg (clearCur s p c) p)) :=
    ((clearCur_lastEq s p c).trans (notify_lastEq cfg _ p)).trans (advanceAll_lastEq cfg _)
  unfold finish; simp only
  split
  · exact LookEq.of_outEq ho
  · split
    · refine ((LookEq.of_outEq ho).trans (hps _ (hl q) (fun r => by rw [ho r]; exact hsorted r))).trans
        (LookEq.of_outEq (settle_outEq cfg _ p))
    · exact LookEq.of_outEq (ho.trans (settle_outEq cfg _ p))

theorem afterStep_look {cfg : Cfg} {s : State} {p : Sid} {c : TT} {L : List (Sid × Int)} {q : Sid}
    (hsorted : ∀ r, Sorted (s.sims r).outputs)
    (hps : ∀ st, (st.sims q).last = (s.sims q).last → (∀ r, Sorted (st.sims r).outputs) → LookEq L st (prune cfg st)) :
    LookEq L s (afterStep cfg s p c) := by
  have hs3 : (rtCheck cfg s p c).sims = s.sims := rtCheck_sims cfg s p c
  have h3 : OutEq s (rtCheck cfg s p c) := fun r => by rw [hs3]
  unfold afterStep; simp only
  split
  · exact LookEq.of_outEq h3
  · split
    · refine (LookEq.of_outEq h3).trans (finish_look (q := q) (fun r => by rw [hs3]; exact hsorted r) ?_)
      intro st hlast hso
      exact hps st (by rw [hlast, hs3]) hso
    · exact LookEq.of_outEq (h3.trans (outEq_upd _ _ _ (fun _ => rfl)))

/-- the cache lookups of `q`'s cached connections survive any action of another simulator -/
theorem step_look {cfg : Cfg} {s s' : State} {a : Action} {L : List (Sid × Int)} {q : Sid} (h : step cfg s a = some s')
    (hact : a.actor ≠ some q) (hsorted : ∀ r, Sorted (s.sims r).outputs)
    (hps : ∀ st, (st.sims q).last = (s.sims q).last → (∀ r, Sorted (st.sims r).outputs) → LookEq L st (prune cfg st))
    (hreply : ∀ p d c, a = .dataReply p d → (s.sims p).cur = some c → ¬ (TT.time c : Int) > (outTimeOf c d).1 →
      (∀ x ∈ L, x.1 = p → x.2 < (outTimeOf c d).1) ∧ (∀ e ∈ (s.sims p).outputs, e.1 ≤ (outTimeOf c d).1)) :
    LookEq L s s' := by
  cases a with
  | start p =>
    simp only [step, stepStart] at h
    split at h
    · split at h
      · cases h; exact LookEq.of_outEq (advance_outEq cfg s p)
      · cases h; exact LookEq.of_outEq ((advance_outEq cfg s p).trans (settle_outEq cfg _ p))
    · cases h
  | wake p =>
    simp only [step, stepWake] at h
    split at h
    · cases hpc : (s.sims p).pc with
      | awaitSettle a dl =>
        simp only [hpc] at h
        split at h
        · have h1 : OutEq s (if cfg.rt.isSome then advance cfg (s.upd p fun y => { y with newer := false }) p
              else (s.upd p fun y => { y with newer := false })) := by
            have h0 : OutEq s (s.upd p fun y => { y with newer := false }) := outEq_upd _ _ _ (fun _ => rfl)
            split
            · exact h0.trans (advance_outEq cfg _ p)
            · exact h0
          generalize (if cfg.rt.isSome then advance cfg (s.upd p fun y => { y with newer := false }) p
              else (s.upd p fun y => { y with newer := false })) = s2 at h h1
          by_cases hfl2 : s2.failed.isSome = true
          · simp only [hfl2, if_true, Option.some.injEq] at h
            subst h; exact LookEq.of_outEq h1
          · simp only [hfl2, Bool.false_eq_true, if_false, Option.some.injEq] at h
            subst h; exact LookEq.of_outEq (h1.trans (settle_outEq cfg _ p))
        · cases h
      | init => simp [hpc] at h
      | waitDeps t => simp [hpc] at h
      | inStep => simp [hpc] at h
      | inGet => simp [hpc] at h
      | done => simp [hpc] at h
    · cases h
  | deps p =>
    simp only [step, stepDeps] at h
    split at h
    · cases hpc : (s.sims p).pc with
      | waitDeps t =>
        simp only [hpc] at h
        split at h
        · cases hnext : (s.sims p).next with
          | nil => simp [hnext] at h
          | cons c rest =>
            simp only [hnext, Option.some.injEq] at h
            subst h
            apply LookEq.of_outEq
            intro r
            by_cases hrp : r = p
            · subst hrp
              unfold beginStep
              split
              · rw [State.fail_sims]; simp
              · split
                · rw [State.fail_sims]; simp
                · simp [getInputData]
            · rw [beginStep_other cfg s p c rest hrp]
        · cases h
      | init => simp [hpc] at h
      | awaitSettle a dl => simp [hpc] at h
      | inStep => simp [hpc] at h
      | inGet => simp [hpc] at h
      | done => simp [hpc] at h
    · cases h
  | setData p target entries =>
    simp only [step, stepSetData] at h
    split at h
    · split at h
      · cases h; exact LookEq.of_outEq (outEq_fail _ _)
      · cases h
        exact LookEq.of_outEq (outEq_upd s target
          (fun x => { x with setData := entries.foldl (fun acc e => InputData.set acc e.1 e.2) x.setData }) (fun _ => rfl))
    · cases h
  | getDataReq p target =>
    simp only [step, stepGetDataReq] at h
    split at h
    · split at h
      · cases h; exact LookEq.of_outEq (outEq_fail _ _)
      · cases h; exact fun _ _ => rfl
    · cases h
  | setEvent p t =>
    simp only [step, stepSetEvent] at h
    split at h
    · split at h
      · cases h; exact LookEq.of_outEq (outEq_fail _ _)
      · split at h
        · cases h; exact LookEq.of_outEq (schedule_outEq _ _ _)
        · cases h; exact LookEq.of_outEq (outEq_emit _ _)
    · cases h
  | stepReply p r =>
    have hqp : q ≠ p := fun e => hact (by rw [e]; rfl)
    simp only [step, stepStepReply] at h
    split at h
    · cases hcur : (s.sims p).cur with
      | none => simp [hcur] at h
      | some c =>
        simp only [hcur, Option.some.injEq] at h
        subst h
        have h1 : OutEq s ((s.upd p fun y => { y with last := some c }).emit (.stepped p c)) :=
          (outEq_upd s p (fun y => { y with last := some c }) (fun _ => rfl)).trans (outEq_emit _ _)
        have h1l : (((s.upd p fun y => { y with last := some c }).emit (.stepped p c)).sims q).last = (s.sims q).last := by
          simp only [State.emit_sims]; rw [State.upd_other _ _ hqp]
        have after : ∀ s2 : State, OutEq s s2 → (s2.sims q).last = (s.sims q).last → LookEq L s (afterStep cfg s2 p c) := by
          intro s2 ho hl
          refine (LookEq.of_outEq ho).trans (afterStep_look (q := q) (fun r => by rw [ho r]; exact hsorted r) ?_)
          intro st hlast hso
          exact hps st (by rw [hlast, hl]) hso
        unfold processStepReply
        simp only
        cases r with
        | bad => exact LookEq.of_outEq (h1.trans (outEq_fail _ _))
        | none =>
          simp only
          split
          · exact LookEq.of_outEq (h1.trans (outEq_fail _ _))
          · exact after _ h1 h1l
        | int n =>
          simp only
          split
          · exact LookEq.of_outEq (h1.trans (outEq_fail _ _))
          · split
            · refine after _ (h1.trans (schedule_outEq _ _ _)) ?_
              rw [(schedule_lastEq _ _ _) q]; exact h1l
            · exact after _ h1 h1l
    · cases h
  | dataReply p d =>
    simp only [step, stepDataReply] at h
    split at h
    · cases hcur : (s.sims p).cur with
      | none => simp [hcur] at h
      | some c =>
        simp only [hcur, Option.some.injEq] at h
        subst h
        have h1 : OutEq s ((s.upd p fun y => { y with outTime := (outTimeOf c d).2 }).emit (.got p c (outTimeOf c d).2 d.data)) :=
          (outEq_upd s p (fun y => { y with outTime := (outTimeOf c d).2 }) (fun _ => rfl)).trans (outEq_emit _ _)
        have h1l : LastEq s ((s.upd p fun y => { y with outTime := (outTimeOf c d).2 }).emit (.got p c (outTimeOf c d).2 d.data)) :=
          (lastEq_upd s p (fun y => { y with outTime := (outTimeOf c d).2 }) (fun _ => rfl)).trans (lastEq_emit _ _)
        unfold processDataReply
        simp only
        split
        · exact LookEq.of_outEq (h1.trans (outEq_fail _ _))
        · rename_i hot
          obtain ⟨hL, hmono⟩ := hreply p d c rfl hcur hot
          obtain ⟨hlook, hso2⟩ := storeOutputs_cache cfg
            ((s.upd p fun y => { y with outTime := (outTimeOf c d).2 }).emit (.got p c (outTimeOf c d).2 d.data)) p (outTimeOf c d).1 d L hL
            (by rw [h1 p]; exact hmono) (fun r => by rw [h1 r]; exact hsorted r)
          refine ((LookEq.of_outEq h1).trans hlook).trans (finish_look (q := q) hso2 ?_)
          intro st hlast hso
          refine hps st ?_ hso
          rw [hlast, (storeOutputs_lastEq cfg _ p _ d) q, h1l q]
    · cases h
  | tick n =>
    simp only [step, stepTick] at h
    split at h
    · cases h
    · cases h; exact fun _ _ => rfl

/-- cached connections: source exists, the delay is a number of time steps and is covered by the destination's minimal
input delay from the source -/
structure PullOk (cfg : Cfg) : Prop where
  range : ∀ p, p < cfg.n → ∀ e ∈ (cfg.sim p).pulled, e.1 < cfg.n
  shape : ∀ p, p < cfg.n → ∀ e ∈ (cfg.sim p).pulled, e.2.1.cutoff = 1 ∧ e.2.1.tiers.length = 1
  covered : ∀ p, p < cfg.n → ∀ e ∈ (cfg.sim p).pulled, ∃ d0, (e.1, d0) ∈ (cfg.sim p).inputDelays ∧ TI.le d0 e.2.1


end Mosaik
