/-
Scheduled steps are kept until they begin (used for the completeness half of C02).

`step_next_keeps`: an action removes a step from a simulator's schedule only by beginning it.
`demand_scheduled`: the action that raises a demand (own returned next step, delivered trigger)
leaves the demanded step in the schedule of the simulator concerned.
-/
import MosaikProofs.Sched.Deadlock
namespace Mosaik

theorem schedule_next_sup (s : State) (q : Sid) (t : TT) : ∀ b x, x ∈ (s.sims b).next → x ∈ ((schedule s q t).sims b).next := by
  intro b x hx
  obtain ⟨_, _, hother, hb⟩ := schedule_fields s q t
  by_cases hbq : b = q
  · subst hbq
    rcases hb with hb | ⟨_, hb⟩
    · rw [hb]; exact hx
    · rw [hb]; exact (mem_insertSorted _ _ x).mpr (Or.inr hx)
  · rw [hother b hbq]; exact hx

theorem schedule_mem (s : State) (q : Sid) (t : TT) : t ∈ ((schedule s q t).sims q).next := by
  obtain ⟨_, _, _, hb⟩ := schedule_fields s q t
  rcases hb with hb | ⟨_, hb⟩
  · rw [hb]
    unfold schedule at hb
    by_cases hm : t ∈ (s.sims q).next
    · exact hm
    · have hcont : (s.sims q).next.contains t = false := by simpa using hm
      simp only [hcont, Bool.false_eq_true, if_false, State.upd_same] at hb
      have : t ∈ insertSorted t (s.sims q).next := (mem_insertSorted _ _ t).mpr (Or.inl rfl)
      rw [hb] at this; exact this
  · rw [hb]; exact (mem_insertSorted _ _ t).mpr (Or.inl rfl)

theorem notify_next_sup (cfg : Cfg) (s : State) (p : Sid) : ∀ b x, x ∈ (s.sims b).next → x ∈ ((notify cfg s p).sims b).next := by
  unfold notify
  apply foldl_inv (fun st => ∀ b x, x ∈ (s.sims b).next → x ∈ (st.sims b).next)
  · intro b x hx; exact hx
  · intro st tr _ ih b x hx
    split
    · exact schedule_next_sup _ _ _ b x (ih b x hx)
    · exact ih b x hx

/-- a trigger whose port carries data is scheduled -/
theorem notify_mem (cfg : Cfg) (s : State) (p : Sid) (tr : Port × Sid × TI) (htr : tr ∈ (cfg.sim p).triggers)
    (hhas : OutData.has (s.sims p).data tr.1 = true) :
    TI.act (s.sims p).outTime tr.2.2 ∈ ((notify cfg s p).sims tr.2.1).next := by
  unfold notify
  -- generalise over the list: once scheduled, it stays
  have key : ∀ (l : List (Port × Sid × TI)) (st : State),
      (tr ∈ l ∨ TI.act (s.sims p).outTime tr.2.2 ∈ (st.sims tr.2.1).next) →
      TI.act (s.sims p).outTime tr.2.2 ∈ ((l.foldl (fun st (tr : Port × Sid × TI) =>
        if OutData.has (s.sims p).data tr.1 then schedule st tr.2.1 (TI.act (s.sims p).outTime tr.2.2) else st) st).sims tr.2.1).next := by
    intro l
    induction l with
    | nil => intro st h; rcases h with h | h; cases h; exact h
    | cons a l ih =>
      intro st h
      simp only [List.foldl_cons]
      apply ih
      rcases h with h | h
      · rcases List.mem_cons.mp h with rfl | h
        · right; rw [if_pos hhas]; exact schedule_mem _ _ _
        · exact Or.inl h
      · right
        split
        · exact schedule_next_sup _ _ _ _ _ h
        · exact h
  exact key _ s (Or.inl htr)

theorem finish_next_sup (cfg : Cfg) (s : State) (p : Sid) (c : TT) :
    ∀ b x, x ∈ ((notify cfg (clearCur s p c) p).sims b).next → x ∈ ((finish cfg s p c).sims b).next := by
  intro b x hx
  unfold finish
  simp only
  split
  · rw [advanceAll_next]; exact hx
  · split
    · rw [settle_next, prune_next, advanceAll_next]; exact hx
    · rw [settle_next, advanceAll_next]; exact hx

theorem clearCur_next (s : State) (p : Sid) (c : TT) (a : Sid) : ((clearCur s p c).sims a).next = (s.sims a).next := by
  simp only [clearCur, State.emit_sims]; rw [State.upd_sims]; split <;> rfl

theorem finish_keeps (cfg : Cfg) (s : State) (p : Sid) (c : TT) : ∀ b x, x ∈ (s.sims b).next → x ∈ ((finish cfg s p c).sims b).next := by
  intro b x hx
  apply finish_next_sup
  apply notify_next_sup
  rw [clearCur_next]; exact hx

theorem afterStep_keeps (cfg : Cfg) (s : State) (p : Sid) (c : TT) : ∀ b x, x ∈ (s.sims b).next → x ∈ ((afterStep cfg s p c).sims b).next := by
  intro b x hx
  have hx3 : x ∈ ((rtCheck cfg s p c).sims b).next := by rw [rtCheck_sims]; exact hx
  unfold afterStep
  simp only
  split
  · exact hx3
  · split
    · exact finish_keeps cfg _ p c b x hx3
    · rw [State.upd_sims]; split
      · rename_i hb; subst hb; exact hx3
      · exact hx3

theorem beginStep_next (cfg : Cfg) (s : State) (p : Sid) (c : TT) (rest : List TT) :
    ((beginStep cfg s p c rest).sims p).next = rest := by
  unfold beginStep
  simp only
  split
  · rw [State.fail_sims]; simp
  · split
    · rw [State.fail_sims]; simp
    · obtain ⟨f, hfctrl, hsnd⟩ := getInputData_snd cfg (s.upd p fun z => { z with cur := some c, next := rest }) p c
      rw [hsnd]
      simp only [State.emit_sims, State.upd_same]
      have := hfctrl ({ s.sims p with cur := some c, next := rest })
      simp only [SimSt.ctrl, Prod.mk.injEq] at this
      rw [this.2.2.1]

/-- an action removes a step from a schedule only by beginning it -/
theorem step_next_keeps {cfg : Cfg} {s s' : State} {a : Action} (h : step cfg s a = some s') :
    ∀ b x, x ∈ (s.sims b).next → x ∈ (s'.sims b).next ∨ (a = .deps b ∧ (s.sims b).next.head? = some x) := by
  intro b x hx
  cases a with
  | start p =>
    left
    simp only [step, stepStart] at h
    split at h
    · split at h
      · cases h; rw [advance_next]; exact hx
      · cases h; rw [settle_next, advance_next]; exact hx
    · cases h
  | wake p =>
    left
    simp only [step, stepWake] at h
    split at h
    · cases hpc : (s.sims p).pc with
      | awaitSettle a dl =>
        simp only [hpc] at h
        split at h
        · have h0 : ∀ q, ((s.upd p fun y => { y with newer := false }).sims q).next = (s.sims q).next := by
            intro q; rw [State.upd_sims]; split <;> rfl
          have h1 : ∀ q, ((if cfg.rt.isSome then advance cfg (s.upd p fun y => { y with newer := false }) p
              else (s.upd p fun y => { y with newer := false })).sims q).next = (s.sims q).next := by
            intro q; split
            · rw [advance_next, h0]
            · exact h0 q
          generalize (if cfg.rt.isSome then advance cfg (s.upd p fun y => { y with newer := false }) p
              else (s.upd p fun y => { y with newer := false })) = s2 at h h1
          by_cases hfl : s2.failed.isSome = true
          · simp only [hfl, if_true, Option.some.injEq] at h
            subst h; rw [h1]; exact hx
          · simp only [hfl, Bool.false_eq_true, if_false, Option.some.injEq] at h
            subst h; rw [settle_next, h1]; exact hx
        · cases h
      | init => simp [hpc] at h
      | waitDeps t => simp [hpc] at h
      | inStep => simp [hpc] at h
      | inGet => simp [hpc] at h
      | done => simp [hpc] at h
    · cases h
  | deps p =>
    simp only [step, stepDeps] at h
    split at h
    · cases hpc : (s.sims p).pc with
      | waitDeps t =>
        simp only [hpc] at h
        split at h
        · cases hnext : (s.sims p).next with
          | nil => simp [hnext] at h
          | cons c rest =>
            simp only [hnext, Option.some.injEq] at h
            subst h
            by_cases hbp : b = p
            · subst hbp
              rw [hnext] at hx
              rcases List.mem_cons.mp hx with rfl | hx
              · right; exact ⟨rfl, by rw [hnext]; rfl⟩
              · left; rw [beginStep_next]; exact hx
            · left; rw [beginStep_other cfg s p c rest hbp]; exact hx
        · cases h
      | init => simp [hpc] at h
      | awaitSettle a dl => simp [hpc] at h
      | inStep => simp [hpc] at h
      | inGet => simp [hpc] at h
      | done => simp [hpc] at h
    · cases h
  | setData p target entries =>
    left
    simp only [step, stepSetData] at h
    split at h
    · split at h
      · cases h; rw [State.fail_sims]; exact hx
      · cases h
        rw [State.upd_sims]
        split
        · rename_i hb; subst hb; exact hx
        · exact hx
    · cases h
  | getDataReq p target =>
    left
    simp only [step, stepGetDataReq] at h
    split at h
    · split at h
      · cases h; rw [State.fail_sims]; exact hx
      · cases h; exact hx
    · cases h
  | setEvent p t =>
    left
    simp only [step, stepSetEvent] at h
    split at h
    · split at h
      · cases h; rw [State.fail_sims]; exact hx
      · split at h
        · cases h; exact schedule_next_sup _ _ _ b x hx
        · cases h; exact hx
    · cases h
  | stepReply p r =>
    left
    simp only [step, stepStepReply] at h
    split at h
    · cases hcur : (s.sims p).cur with
      | none => simp [hcur] at h
      | some c =>
        simp only [hcur, Option.some.injEq] at h
        subst h
        have h1 : x ∈ (((s.upd p fun y => { y with last := some c }).emit (.stepped p c)).sims b).next := by
          simp only [State.emit_sims]; rw [State.upd_sims]; split
          · rename_i hb; subst hb; exact hx
          · exact hx
        unfold processStepReply
        simp only
        cases r with
        | bad => rw [State.fail_sims]; exact h1
        | none =>
          simp only
          split
          · rw [State.fail_sims]; exact h1
          · exact afterStep_keeps cfg _ p c b x h1
        | int n =>
          simp only
          split
          · rw [State.fail_sims]; exact h1
          · split
            · exact afterStep_keeps cfg _ p c b x (schedule_next_sup _ _ _ b x h1)
            · exact afterStep_keeps cfg _ p c b x h1
    · cases h
  | dataReply p d =>
    left
    simp only [step, stepDataReply] at h
    split at h
    · cases hcur : (s.sims p).cur with
      | none => simp [hcur] at h
      | some c =>
        simp only [hcur, Option.some.injEq] at h
        subst h
        have h1 : x ∈ (((s.upd p fun y => { y with outTime := (outTimeOf c d).2 }).emit (.got p c (outTimeOf c d).2 d.data)).sims b).next := by
          simp only [State.emit_sims]; rw [State.upd_sims]; split
          · rename_i hb; subst hb; exact hx
          · exact hx
        unfold processDataReply
        simp only
        split
        · rw [State.fail_sims]; exact h1
        · apply finish_keeps
          rw [storeOutputs_next]; exact h1
    · cases h
  | tick n =>
    left
    simp only [step, stepTick] at h
    split at h
    · cases h
    · cases h; exact hx

/-- the action that raises a demand leaves the demanded step in the schedule -/
theorem demand_scheduled {cfg : Cfg} {s s' : State} {a : Action} {b : Sid} {x : TT} (h : step cfg s a = some s')
    (hnf : s'.failed = none) (hd : SelfSrc cfg s a b x ∨ TrigSrc cfg s a b x) : x ∈ (s'.sims b).next := by
  rcases hd with ⟨n, c, ha, hcur, hlt, hun, hx⟩ | ⟨q, c, tr, data, outT, hqn, hcur, htr, hb, hhas, hx, hsrc⟩
  · subst ha
    simp only [step, stepStepReply] at h
    split at h
    · simp only [hcur, Option.some.injEq] at h
      subst h
      unfold processStepReply
      simp only
      have hnle : ¬ n ≤ (TT.time c : Int) := by omega
      simp only [hnle, if_false, hun, if_true]
      apply afterStep_keeps
      rw [hx]; exact schedule_mem _ _ _
    · cases h
  · rcases hsrc with ⟨d, ha, hdata, hout, hot⟩ | ⟨r, ha, hempty, hdata, hout⟩
    · subst ha
      simp only [step, stepDataReply] at h
      split at h
      · simp only [hcur, Option.some.injEq] at h
        subst h
        unfold processDataReply
        simp only
        rw [if_neg hot]
        apply finish_next_sup
        have hcd : ((clearCur (storeOutputs cfg ((s.upd q fun y => { y with outTime := (outTimeOf c d).2 }).emit
            (.got q c (outTimeOf c d).2 d.data)) q (outTimeOf c d).1 d) q c).sims q).data = d.data := by
          simp only [clearCur, State.emit_sims, State.upd_same]
          exact storeOutputs_data cfg _ q _ d
        have hco : ((clearCur (storeOutputs cfg ((s.upd q fun y => { y with outTime := (outTimeOf c d).2 }).emit
            (.got q c (outTimeOf c d).2 d.data)) q (outTimeOf c d).1 d) q c).sims q).outTime = (outTimeOf c d).2 := by
          simp only [clearCur, State.emit_sims, State.upd_same]
          rw [(storeOutputs_ctrlEq cfg _ q _ d).2.2]; simp
        have := notify_mem cfg (clearCur (storeOutputs cfg ((s.upd q fun y => { y with outTime := (outTimeOf c d).2 }).emit
            (.got q c (outTimeOf c d).2 d.data)) q (outTimeOf c d).1 d) q c) q tr htr (by rw [hcd, ← hdata]; exact hhas)
        rw [hco] at this
        have e : TI.act (outTimeOf c d).2 tr.2.2 = x := by rw [hx, hout]
        rw [e, hb] at this
        exact this
      · cases h
    · subst ha
      -- a step reply that ends the step because no output is requested
      simp only [step, stepStepReply] at h
      split at h
      · simp only [hcur, Option.some.injEq] at h
        subst h
        have key : ∀ s2 : State, (s2.sims q).data = (s.sims q).data → (s2.sims q).outTime = (s.sims q).outTime →
            (afterStep cfg s2 q c).failed = none → x ∈ ((afterStep cfg s2 q c).sims b).next := by
          intro s2 h2d h2o hnf2
          unfold afterStep at hnf2 ⊢
          simp only at hnf2 ⊢
          split
          · rename_i hfail
            simp only [hfail, if_true] at hnf2
            rw [hnf2] at hfail; cases hfail
          · apply finish_next_sup
            have hcd : ((clearCur (rtCheck cfg s2 q c) q c).sims q).data = (s.sims q).data := by
              simp only [clearCur, State.emit_sims, State.upd_same]; rw [rtCheck_sims]; exact h2d
            have hco : ((clearCur (rtCheck cfg s2 q c) q c).sims q).outTime = (s.sims q).outTime := by
              simp only [clearCur, State.emit_sims, State.upd_same]; rw [rtCheck_sims]; exact h2o
            have := notify_mem cfg (clearCur (rtCheck cfg s2 q c) q c) q tr htr (by rw [hcd, ← hdata]; exact hhas)
            rw [hco] at this
            have e : TI.act (s.sims q).outTime tr.2.2 = x := by rw [hx, hout]
            rw [e, hb] at this
            exact this
        have h1d : (((s.upd q fun y => { y with last := some c }).emit (.stepped q c)).sims q).data = (s.sims q).data ∧
            (((s.upd q fun y => { y with last := some c }).emit (.stepped q c)).sims q).outTime = (s.sims q).outTime := by simp
        unfold processStepReply at hnf ⊢
        simp only at hnf ⊢
        cases r with
        | bad =>
          simp only at hnf
          have := State.fail_failed ((s.upd q fun y => { y with last := some c }).emit (.stepped q c)) (.badReply q .notInt)
          rw [hnf] at this; cases this
        | none =>
          simp only at hnf ⊢
          split
          · rename_i hty; simp only [hty, if_true] at hnf
            have := State.fail_failed ((s.upd q fun y => { y with last := some c }).emit (.stepped q c)) (.badReply q .noNextStep)
            rw [hnf] at this; cases this
          · rename_i hty; simp only [hty, if_false] at hnf
            exact key _ h1d.1 h1d.2 hnf
        | int n =>
          simp only at hnf ⊢
          split
          · rename_i hle; simp only [hle, if_true] at hnf
            have := State.fail_failed ((s.upd q fun y => { y with last := some c }).emit (.stepped q c)) (.badReply q .notLater)
            rw [hnf] at this; cases this
          · rename_i hle; simp only [hle, if_false] at hnf
            split
            · rename_i hlt; simp only [hlt, if_true] at hnf
              refine key _ ?_ ?_ hnf
              · simp only [schedule]; split
                · exact h1d.1
                · simp only [State.upd_same]; exact h1d.1
              · simp only [schedule]; split
                · exact h1d.2
                · simp only [State.upd_same]; exact h1d.2
            · rename_i hlt; simp only [hlt, if_false] at hnf
              exact key _ h1d.1 h1d.2 hnf
      · cases h

end Mosaik
