/-
Deadlock freedom for flat configurations (C05).

`Flat cfg rank`: no simulator groups (every time has one tier, every delay is a number of time
steps), every connection table refers to existing simulators, the intervals used for lazy stepping
and asynchronous requests are zero, and `rank` orders the simulators along the zero-delay
connections — i.e. there is no data-flow cycle without a time shift, which is what
`ensure_no_dataflow_cycles` accepts.

`blocked_or_moves`: in a reachable quiescent state (no step in flight, every process started), a
simulator that has not ended either can take its next scheduler transition, or is held up by another
simulator that has not ended and is strictly smaller in the order (time of its progress, rank).
`deadlock_free_flat`: hence some scheduler transition is enabled as long as some simulator has not
ended.  Together with the simulators' answers this is "never waits on a condition that cannot
become true".
-/
import MosaikProofs.Sched.Done
namespace Mosaik

/-! ### one-tier arithmetic -/

theorem flat_eq {t : TT} (h : t.length = 1) : t = [TT.time t] := by
  match t, h with
  | [x], _ => simp [TT.time, tier]

theorem flat_lt {a b : TT} (ha : a.length = 1) (hb : b.length = 1) : a < b ↔ TT.time a < TT.time b := by
  rw [flat_eq ha, flat_eq hb]
  simp only [TT.time, tier, List.getElem?_cons_zero, Option.getD_some]
  rw [List.cons_lt_cons_iff]
  simp

theorem flat_le {a b : TT} (ha : a.length = 1) (hb : b.length = 1) : a ≤ b ↔ TT.time a ≤ TT.time b := by
  rw [← TT.not_lt, flat_lt hb ha]; omega

theorem flat_act_time (t : TT) {d : TI} (hc : d.cutoff = 1) (hl : d.tiers.length = 1) :
    TT.time (TI.act t d) = TT.time t + tier d.tiers 0 := by
  unfold TT.time
  rw [TI.tier_act]
  simp [hc, hl]

structure Flat (cfg : Cfg) (rank : Sid → Nat) : Prop where
  depth : ∀ p, (cfg.sim p).depth = 1
  inputRange : ∀ p, p < cfg.n → ∀ qd ∈ (cfg.sim p).inputDelays, qd.1 < cfg.n
  succRange : ∀ p, p < cfg.n → ∀ sd ∈ (cfg.sim p).succs, sd.1 < cfg.n
  succWaitRange : ∀ p, p < cfg.n → ∀ sd ∈ (cfg.sim p).succsWait, sd.1 < cfg.n
  inputShape : ∀ p, p < cfg.n → ∀ qd ∈ (cfg.sim p).inputDelays, qd.2.cutoff = 1 ∧ qd.2.tiers.length = 1
  ancShape : ∀ p, p < cfg.n → ∀ ad ∈ (cfg.sim p).trigAnc, ad.2.cutoff = 1 ∧ ad.2.tiers.length = 1
  succZero : ∀ p, p < cfg.n → ∀ sd ∈ (cfg.sim p).succs, sd.2.cutoff = 1 ∧ sd.2.tiers = [0]
  succWaitZero : ∀ p, p < cfg.n → ∀ sd ∈ (cfg.sim p).succsWait, sd.2.cutoff = 1 ∧ sd.2.tiers = [0]
  /-- no zero-delay cycle: zero-delay connections go up in rank -/
  rankInput : ∀ p, p < cfg.n → ∀ qd ∈ (cfg.sim p).inputDelays, tier qd.2.tiers 0 = 0 → rank qd.1 < rank p
  rankAnc : ∀ p, p < cfg.n → ∀ ad ∈ (cfg.sim p).trigAnc, tier ad.2.tiers 0 = 0 → rank ad.1 < rank p

theorem ite_some_isSome {α : Type} (c : Prop) [Decidable c] (a b : α) : (if c then some a else some b).isSome = true := by
  split <;> rfl

theorem awaitTarget_le_end (cfg : Cfg) (s : State) (q : Sid) : awaitTarget cfg s q ≤ cfg.endT q := by
  unfold awaitTarget
  split
  · split
    · exact TT.le_refl _
    · rename_i h; exact TT.not_lt.mp h
  · exact TT.le_refl _

/-- some scheduler transition is enabled -/
def Moves (cfg : Cfg) (s : State) : Prop :=
  (∃ p, (step cfg s (.wake p)).isSome = true) ∨ (∃ p, (step cfg s (.deps p)).isSome = true)

/-- the order in which blocked simulators are held up -/
def Before (s : State) (rank : Sid → Nat) (r q : Sid) : Prop :=
  TT.time (s.sims r).progress < TT.time (s.sims q).progress ∨
  (TT.time (s.sims r).progress = TT.time (s.sims q).progress ∧ rank r < rank q)

theorem blocked_or_moves {cfg : Cfg} (hw : WFCfg cfg) (hs : WFShape cfg) {rank : Sid → Nat} (hfl : Flat cfg rank)
    {s : State} (hr : Reach cfg s) (hnf : s.failed = none) (hidle : Idle cfg s)
    (hstarted : ∀ q, q < cfg.n → (s.sims q).pc ≠ .init) {q : Sid} (hq : q < cfg.n) (hnd : (s.sims q).pc ≠ .done) :
    Moves cfg s ∨ ∃ r, r < cfg.n ∧ (s.sims r).pc ≠ .done ∧ Before s rank r q := by
  obtain ⟨hcore, hpcs⟩ := reach_good hw hr hnf
  have hlen : ∀ x, x < cfg.n → (s.sims x).progress.length = 1 := fun x hx => by
    rw [progress_length hw hs hr hnf hidle hx (hstarted x hx), hfl.depth]
  have hsh := reach_shape hw hs hr
  have hlive : live cfg s q = true := live_iff.mpr ⟨hnf, hq⟩
  have hcurnone : ∀ x, x < cfg.n → (s.sims x).cur = none := fun x hx =>
    (hpcs x hx).idle (by rintro (h | h); exact (hidle x hx).1 h; exact (hidle x hx).2 h)
  -- a blocker that has ended is impossible once its progress is known to lie before `until`
  have notDone : ∀ r, r < cfg.n → TT.time (s.sims r).progress < cfg.until_ → (s.sims r).pc ≠ .done := by
    intro r _ hlt hd
    have := reach_doneOk hr hnf r hd
    omega
  cases hpc : (s.sims q).pc with
  | init => exact absurd hpc (hstarted q hq)
  | inStep => exact absurd hpc (hidle q hq).1
  | inGet => exact absurd hpc (hidle q hq).2
  | done => exact absurd hpc hnd
  | awaitSettle a dl =>
    by_cases hwk : a ≤ (s.sims q).progress ∨ (s.sims q).newer = true ∨ timedOut dl s.clock = true
    · left; left
      refine ⟨q, ?_⟩
      simp only [step, stepWake, hlive, if_true, hpc, hwk]
      exact ite_some_isSome _ _ _
    · right
      have hna : ¬ a ≤ (s.sims q).progress := fun h => hwk (Or.inl h)
      have hnn : ¬ (s.sims q).newer = true := fun h => hwk (Or.inr (Or.inl h))
      have ha : a = awaitTarget cfg s q := by
        rcases reach_awaitOk hr hnf q a dl hpc with h | h
        · exact absurd h hnn
        · exact h
      have hplt : (s.sims q).progress < a := TT.not_le.mp hna
      have hup := reach_upToDate hw hr hnf hidle q hq (hstarted q hq)
      have hend : a ≤ cfg.endT q := ha ▸ awaitTarget_le_end cfg s q
      have hendlen : (cfg.endT q).length = 1 := by rw [Cfg.endT, ofWorld_length, hfl.depth]
      have hptime : TT.time (s.sims q).progress < cfg.until_ := by
        have h1 : (s.sims q).progress < cfg.endT q := TT.lt_of_lt_of_le hplt hend
        have := (flat_lt (hlen q hq) hendlen).mp h1
        rwa [Cfg.endT, time_ofWorld (by rw [hfl.depth]; omega)] at this
      unfold newProgress at hup
      rcases minTT_mem (candidates cfg s q) (cfg.endT q) with h | h
      · rw [h] at hup
        rw [hup] at hplt
        exact absurd (TT.lt_of_lt_of_le hplt hend) (TT.lt_irrefl _)
      · rw [← hup] at h
        rcases (mem_candidates hw s q _).mp h with ⟨ad, had, f, hf, hx⟩ | h1 | h1
        · -- held up by a triggering ancestor
          have hrn : ad.1 < cfg.n := hw.ancRange q hq ad had
          obtain ⟨hc1, hl1⟩ := hfl.ancShape q hq ad had
          have hfnext : f ∈ (s.sims ad.1).next := by
            unfold front at hf
            rw [hcurnone ad.1 hrn] at hf
            exact List.mem_of_mem_head? hf
          have hle : (s.sims ad.1).progress ≤ f := (hcore ad.1 hrn).le_next f hfnext
          have ht : TT.time (s.sims q).progress = TT.time f + tier ad.2.tiers 0 := by
            rw [hx, flat_act_time f hc1 hl1]
          have hrt := TT.time_mono hle
          refine ⟨ad.1, hrn, notDone ad.1 hrn (by omega), ?_⟩
          unfold Before
          by_cases hk : tier ad.2.tiers 0 = 0
          · by_cases heq : TT.time (s.sims ad.1).progress = TT.time (s.sims q).progress
            · exact Or.inr ⟨heq, hfl.rankAnc q hq ad had hk⟩
            · left; omega
          · left; omega
        · -- its own next step is the minimum: then it is awaited and reached
          exfalso
          have hx := List.mem_of_mem_head? h1
          have : awaitTarget cfg s q = (s.sims q).progress := by
            unfold awaitTarget
            rw [h1]
            have : ¬ cfg.endT q < (s.sims q).progress := TT.not_lt.mpr (hcore q hq).le_end
            simp [this]
          rw [ha, this] at hplt
          exact TT.lt_irrefl _ hplt
        · rw [hcurnone q hq] at h1; cases h1
  | waitDeps t =>
    obtain ⟨hhead, hprog, htime⟩ := (hpcs q hq).waiting t hpc
    by_cases hd : depsReady cfg s q t = true
    · left; right
      refine ⟨q, ?_⟩
      cases hn : (s.sims q).next with
      | nil => rw [hn] at hhead; cases hhead
      | cons c rest => simp [step, stepDeps, hlive, hpc, hd, hn]
    · right
      have hqt : TT.time (s.sims q).progress = TT.time t := by rw [hprog]
      have htl : t.length = 1 := by rw [← hprog]; exact hlen q hq
      -- a successor that has not reached `t`
      have succCase : ∀ sd : Sid × TI, sd.1 < cfg.n → sd.2.cutoff = 1 ∧ sd.2.tiers = [0] →
          ¬ (TI.act t sd.2 ≤ (s.sims sd.1).progress) →
          ∃ r, r < cfg.n ∧ (s.sims r).pc ≠ .done ∧ Before s rank r q := by
        intro sd hbn ⟨hc, hz⟩ hnot
        have hlt : (s.sims sd.1).progress < TI.act t sd.2 := TT.not_le.mp hnot
        have hal : (TI.act t sd.2).length = 1 := by rw [TI.act_length, hz]; rfl
        have := (flat_lt (hlen sd.1 hbn) hal).mp hlt
        rw [flat_act_time t hc (by rw [hz]; rfl), hz] at this
        simp only [tier] at this
        refine ⟨sd.1, hbn, notDone sd.1 hbn (by simp at this; omega), Or.inl ?_⟩
        simp at this; omega
      by_cases h1 : (cfg.sim q).inputDelays.all (fun qd => decide (t < TI.act (s.sims qd.1).progress qd.2)) = true
      · by_cases h2 : (cfg.sim q).succsWait.all (fun sd => decide (TI.act t sd.2 ≤ (s.sims sd.1).progress)) = true
        · have hall : ¬ (cfg.sim q).succs.all (fun sd => decide (TI.act t sd.2 ≤ (s.sims sd.1).progress)) = true := by
            intro h3
            apply hd
            unfold depsReady
            simp only [h1, h2, h3]
            simp
          rw [List.all_eq_true] at hall
          have : ∃ sd ∈ (cfg.sim q).succs, ¬ (TI.act t sd.2 ≤ (s.sims sd.1).progress) := by
            apply Classical.byContradiction
            intro hcon
            apply hall
            intro sd hsd
            apply decide_eq_true
            apply Classical.byContradiction
            intro hn
            exact hcon ⟨sd, hsd, hn⟩
          obtain ⟨sd, hsd, hnot⟩ := this
          exact succCase sd (hfl.succRange q hq sd hsd) (hfl.succZero q hq sd hsd) hnot
        · rw [List.all_eq_true] at h2
          have : ∃ sd ∈ (cfg.sim q).succsWait, ¬ (TI.act t sd.2 ≤ (s.sims sd.1).progress) := by
            apply Classical.byContradiction
            intro hcon
            apply h2
            intro sd hsd
            apply decide_eq_true
            apply Classical.byContradiction
            intro hn
            exact hcon ⟨sd, hsd, hn⟩
          obtain ⟨sd, hsd, hnot⟩ := this
          exact succCase sd (hfl.succWaitRange q hq sd hsd) (hfl.succWaitZero q hq sd hsd) hnot
      · rw [List.all_eq_true] at h1
        have : ∃ qd ∈ (cfg.sim q).inputDelays, ¬ (t < TI.act (s.sims qd.1).progress qd.2) := by
          apply Classical.byContradiction
          intro hcon
          apply h1
          intro qd hqd
          apply decide_eq_true
          apply Classical.byContradiction
          intro hn
          exact hcon ⟨qd, hqd, hn⟩
        obtain ⟨qd, hqd, hnot⟩ := this
        have hrn := hfl.inputRange q hq qd hqd
        obtain ⟨hc1, hl1⟩ := hfl.inputShape q hq qd hqd
        have hle : TI.act (s.sims qd.1).progress qd.2 ≤ t := TT.not_lt.mp hnot
        have hal : (TI.act (s.sims qd.1).progress qd.2).length = 1 := by rw [TI.act_length, hl1]
        have := (flat_le hal htl).mp hle
        rw [flat_act_time _ hc1 hl1] at this
        refine ⟨qd.1, hrn, notDone qd.1 hrn (by omega), ?_⟩
        unfold Before
        by_cases hk : tier qd.2.tiers 0 = 0
        · by_cases heq : TT.time (s.sims qd.1).progress = TT.time (s.sims q).progress
          · exact Or.inr ⟨heq, hfl.rankInput q hq qd hqd hk⟩
          · left; omega
        · left; omega

/-- following the blockers downwards ends at a simulator that can move -/
theorem moves_of_unfinished {cfg : Cfg} (hw : WFCfg cfg) (hs : WFShape cfg) {rank : Sid → Nat} (hfl : Flat cfg rank)
    {s : State} (hr : Reach cfg s) (hnf : s.failed = none) (hidle : Idle cfg s)
    (hstarted : ∀ q, q < cfg.n → (s.sims q).pc ≠ .init) :
    ∀ T R q, q < cfg.n → (s.sims q).pc ≠ .done → TT.time (s.sims q).progress = T → rank q = R → Moves cfg s := by
  intro T
  induction T using Nat.strongRecOn with
  | ind T ihT =>
    intro R
    induction R using Nat.strongRecOn with
    | ind R ihR =>
      intro q hq hnd hT hR
      rcases blocked_or_moves hw hs hfl hr hnf hidle hstarted hq hnd with h | ⟨r, hrn, hrnd, hbef⟩
      · exact h
      · rcases hbef with hlt | ⟨heq, hrk⟩
        · exact ihT _ (by omega) _ r hrn hrnd rfl rfl
        · exact ihR _ (by omega) r hrn hrnd (by omega) rfl

/-- **C05, deadlock freedom (flat configurations).**  In every reachable state that has not failed
and in which some simulator's process has not ended, the scheduler can take a transition (start a
process, wake a process waiting in `next_step_settled`, or let a process waiting for its
dependencies begin its step), or it is waiting for the answer of a simulator that is inside
`step` / `get_data`.  It never waits on a condition that cannot become true. -/
theorem deadlock_free_flat {cfg : Cfg} (hw : WFCfg cfg) (hs : WFShape cfg) {rank : Sid → Nat} (hfl : Flat cfg rank)
    {s : State} (hr : Reach cfg s) (hnf : s.failed = none) (hsome : ∃ p, p < cfg.n ∧ (s.sims p).pc ≠ .done) :
    (∃ p, (step cfg s (.start p)).isSome = true) ∨ Moves cfg s ∨
    (∃ p, p < cfg.n ∧ ((s.sims p).pc = .inStep ∨ (s.sims p).pc = .inGet)) := by
  by_cases hinit : ∃ q, q < cfg.n ∧ (s.sims q).pc = .init
  · obtain ⟨q, hq, hpc⟩ := hinit
    left
    refine ⟨q, ?_⟩
    have hlive : live cfg s q = true := live_iff.mpr ⟨hnf, hq⟩
    simp only [step, stepStart, hlive, hpc, beq_self_eq_true, Bool.and_self, if_true]
    exact ite_some_isSome _ _ _
  · by_cases hbusy : ∃ q, q < cfg.n ∧ ((s.sims q).pc = .inStep ∨ (s.sims q).pc = .inGet)
    · exact Or.inr (Or.inr hbusy)
    · right; left
      have hidle : Idle cfg s := by
        intro q hq
        constructor
        · intro h; exact hbusy ⟨q, hq, Or.inl h⟩
        · intro h; exact hbusy ⟨q, hq, Or.inr h⟩
      have hstarted : ∀ q, q < cfg.n → (s.sims q).pc ≠ .init := fun q hq h => hinit ⟨q, hq, h⟩
      obtain ⟨p, hp, hnd⟩ := hsome
      exact moves_of_unfinished hw hs hfl hr hnf hidle hstarted _ _ p hp hnd rfl rfl

end Mosaik
