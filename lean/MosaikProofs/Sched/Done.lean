/-
A simulator whose process has ended has reached the end of the simulation (used for deadlock
freedom, C05): `pc = done → until ≤ time progress`, in every reachable state (`reach_doneOk`).
-/
import MosaikProofs.Sched.Shape
namespace Mosaik

def DoneOk (cfg : Cfg) (s : State) (q : Sid) : Prop := (s.sims q).pc = .done → cfg.until_ ≤ TT.time (s.sims q).progress

/-- same program counter, progress not smaller -/
def PPle (s s' : State) (q : Sid) : Prop := (s'.sims q).pc = (s.sims q).pc ∧ (s.sims q).progress ≤ (s'.sims q).progress

theorem PPle.refl (s : State) (q : Sid) : PPle s s q := ⟨rfl, TT.le_refl _⟩
theorem PPle.trans {s s' s'' : State} {q : Sid} (h1 : PPle s s' q) (h2 : PPle s' s'' q) : PPle s s'' q :=
  ⟨h2.1.trans h1.1, TT.le_trans h1.2 h2.2⟩
theorem PPle.of_eq {s s' : State} {q : Sid} (h : s'.sims q = s.sims q) : PPle s s' q := by
  unfold PPle; rw [h]; exact ⟨rfl, TT.le_refl _⟩
theorem PPle.of_ctrlEq {s s' : State} (h : CtrlEq s s') (q : Sid) : PPle s s' q :=
  ⟨(h.fields q).1, TT.le_of_eq (h.fields q).2.1.symm⟩
theorem PPle.of_nextOnly {s s' : State} (h : NextOnly s s') (q : Sid) : PPle s s' q :=
  ⟨(h q).2.2.2, TT.le_of_eq (h q).1.symm⟩

theorem DoneOk.of_pple {cfg : Cfg} {s s' : State} {q : Sid} (h : PPle s s' q) (hq : DoneOk cfg s q) : DoneOk cfg s' q := by
  intro hpc
  rw [h.1] at hpc
  exact Nat.le_trans (hq hpc) (TT.time_mono h.2)

theorem advance_pple (cfg : Cfg) (s : State) (p q : Sid) : PPle s (advance cfg s p) q := by
  unfold advance
  simp only
  split
  · exact PPle.of_eq (by rw [State.fail_sims])
  · rename_i hlt
    rw [PPle, State.upd_sims]
    split
    · rename_i hqp; subst hqp
      exact ⟨rfl, TT.not_lt.mp hlt⟩
    · exact ⟨rfl, TT.le_refl _⟩

theorem advanceAll_pple (cfg : Cfg) (s : State) (q : Sid) : PPle s (advanceAll cfg s) q := by
  unfold advanceAll
  apply foldl_inv (fun st => PPle s st q)
  · exact PPle.refl s q
  · intro st p _ h
    split
    · exact h
    · exact h.trans (advance_pple cfg st p q)

theorem notify_nextOnly (cfg : Cfg) (s : State) (p : Sid) : NextOnly s (notify cfg s p) := by
  unfold notify
  apply foldl_inv (fun st => NextOnly s st)
  · exact NextOnly.refl s
  · intro st tr _ h
    split
    · exact h.trans (schedule_nextOnly _ _ _)
    · exact h

theorem settle_doneOk {cfg : Cfg} {s : State} (p : Sid) {q : Sid} (hq : q ≠ p → DoneOk cfg s q) : DoneOk cfg (settle cfg s p) q := by
  by_cases hqp : q = p
  · subst hqp
    intro hpc
    rw [settle_progress]
    unfold settle at hpc
    simp only at hpc
    split at hpc
    · rename_i h; exact h
    · split at hpc
      · split at hpc <;> simp at hpc
      · simp at hpc
  · exact (hq hqp).of_pple (PPle.of_eq (settle_other cfg s p hqp))

theorem clearCur_pple (s : State) (p : Sid) (c : TT) (q : Sid) : PPle s (clearCur s p c) q := by
  unfold clearCur
  rw [PPle]
  simp only [State.emit_sims]
  rw [State.upd_sims]
  split <;> exact ⟨rfl, TT.le_refl _⟩

theorem finish_doneOk {cfg : Cfg} {s : State} (p : Sid) (c : TT) {q : Sid} (hq : q ≠ p → DoneOk cfg s q)
    (hnf : (finish cfg s p c).failed = none) : DoneOk cfg (finish cfg s p c) q := by
  have h3 : PPle s (advanceAll cfg (notify cfg (clearCur s p c) p)) q :=
    ((clearCur_pple s p c q).trans (PPle.of_nextOnly (notify_nextOnly cfg _ p) q)).trans (advanceAll_pple cfg _ q)
  unfold finish at hnf ⊢
  simp only at hnf ⊢
  split
  · rename_i hfail
    simp only [hfail, if_true] at hnf
    rw [hnf] at hfail; cases hfail
  · split
    · exact settle_doneOk p (fun hqp => (hq hqp).of_pple (h3.trans (PPle.of_ctrlEq (prune_ctrlEq cfg _) q)))
    · exact settle_doneOk p (fun hqp => (hq hqp).of_pple h3)

theorem afterStep_doneOk {cfg : Cfg} {s : State} (p : Sid) (c : TT) {q : Sid} (hq : q ≠ p → DoneOk cfg s q)
    (hnf : (afterStep cfg s p c).failed = none) : DoneOk cfg (afterStep cfg s p c) q := by
  have hq3 : q ≠ p → DoneOk cfg (rtCheck cfg s p c) q := fun hqp => (hq hqp).of_pple (PPle.of_eq (by rw [rtCheck_sims]))
  unfold afterStep at hnf ⊢
  simp only at hnf ⊢
  split
  · rename_i hfail
    simp only [hfail, if_true] at hnf
    rw [hnf] at hfail; cases hfail
  · rename_i hfail
    simp only [hfail, if_false] at hnf
    split
    · rename_i hempty
      simp only [hempty, if_true] at hnf
      exact finish_doneOk p c hq3 hnf
    · by_cases hqp : q = p
      · subst hqp
        intro hpc
        simp at hpc
      · exact (hq3 hqp).of_pple (PPle.of_eq (State.upd_other _ _ hqp))

theorem step_doneOk {cfg : Cfg} {s s' : State} {a : Action} (hs : ∀ q, DoneOk cfg s q) (h : step cfg s a = some s')
    (hnf : s'.failed = none) : ∀ q, DoneOk cfg s' q := by
  intro q
  cases a with
  | start p =>
    simp only [step, stepStart] at h
    split at h
    · split at h
      · rename_i hf; cases h; rw [hnf] at hf; cases hf
      · cases h; exact settle_doneOk p (fun _ => (hs q).of_pple (advance_pple cfg s p q))
    · cases h
  | wake p =>
    simp only [step, stepWake] at h
    split at h
    · cases hpc : (s.sims p).pc with
      | awaitSettle a dl =>
        simp only [hpc] at h
        split at h
        · have h1 : q ≠ p → DoneOk cfg (if cfg.rt.isSome then advance cfg (s.upd p fun y => { y with newer := false }) p
              else (s.upd p fun y => { y with newer := false })) q := by
            intro hqp
            have h0 : DoneOk cfg (s.upd p fun y => { y with newer := false }) q :=
              (hs q).of_pple (PPle.of_eq (State.upd_other _ _ hqp))
            split
            · exact h0.of_pple (advance_pple cfg _ p q)
            · exact h0
          generalize (if cfg.rt.isSome then advance cfg (s.upd p fun y => { y with newer := false }) p
              else (s.upd p fun y => { y with newer := false })) = s2 at h h1
          by_cases hfl : s2.failed.isSome = true
          · simp only [hfl, if_true, Option.some.injEq] at h
            subst h; rw [hnf] at hfl; cases hfl
          · simp only [hfl, Bool.false_eq_true, if_false, Option.some.injEq] at h
            subst h; exact settle_doneOk p h1
        · cases h
      | init => simp [hpc] at h
      | waitDeps t => simp [hpc] at h
      | inStep => simp [hpc] at h
      | inGet => simp [hpc] at h
      | done => simp [hpc] at h
    · cases h
  | deps p =>
    simp only [step, stepDeps] at h
    split at h
    · cases hpc : (s.sims p).pc with
      | waitDeps t =>
        simp only [hpc] at h
        split at h
        · cases hnext : (s.sims p).next with
          | nil => simp [hnext] at h
          | cons c rest =>
            simp only [hnext, Option.some.injEq] at h
            subst h
            by_cases hqp : q = p
            · subst hqp
              intro hpc2
              rw [beginStep_pc cfg s q c rest hnf] at hpc2; cases hpc2
            · exact (hs q).of_pple (PPle.of_eq (beginStep_other cfg s p c rest hqp))
        · cases h
      | init => simp [hpc] at h
      | awaitSettle a dl => simp [hpc] at h
      | inStep => simp [hpc] at h
      | inGet => simp [hpc] at h
      | done => simp [hpc] at h
    · cases h
  | setData p target entries =>
    simp only [step, stepSetData] at h
    split at h
    · split at h
      · cases h; exact (hs q).of_pple (PPle.of_eq (by rw [State.fail_sims]))
      · cases h
        refine (hs q).of_pple ?_
        rw [PPle, State.upd_sims]; split <;> exact ⟨rfl, TT.le_refl _⟩
    · cases h
  | getDataReq p target =>
    simp only [step, stepGetDataReq] at h
    split at h
    · split at h
      · cases h; exact (hs q).of_pple (PPle.of_eq (by rw [State.fail_sims]))
      · cases h; exact hs q
    · cases h
  | setEvent p t =>
    simp only [step, stepSetEvent] at h
    split at h
    · split at h
      · cases h; exact (hs q).of_pple (PPle.of_eq (by rw [State.fail_sims]))
      · split at h
        · cases h; exact (hs q).of_pple (PPle.of_nextOnly (schedule_nextOnly _ _ _) q)
        · cases h; exact (hs q).of_pple (PPle.of_eq rfl)
    · cases h
  | stepReply p r =>
    simp only [step, stepStepReply] at h
    split at h
    · cases hcur : (s.sims p).cur with
      | none => simp [hcur] at h
      | some c =>
        simp only [hcur, Option.some.injEq] at h
        subst h
        have h1 : DoneOk cfg ((s.upd p fun y => { y with last := some c }).emit (.stepped p c)) q := by
          refine (hs q).of_pple ?_
          rw [PPle]; simp only [State.emit_sims]; rw [State.upd_sims]; split <;> exact ⟨rfl, TT.le_refl _⟩
        unfold processStepReply at hnf ⊢
        simp only at hnf ⊢
        cases r with
        | bad => exact h1.of_pple (PPle.of_eq (by rw [State.fail_sims]))
        | none =>
          simp only at hnf ⊢
          split
          · exact h1.of_pple (PPle.of_eq (by rw [State.fail_sims]))
          · rename_i hty; simp only [hty, if_false] at hnf
            exact afterStep_doneOk p c (fun _ => h1) hnf
        | int n =>
          simp only at hnf ⊢
          split
          · exact h1.of_pple (PPle.of_eq (by rw [State.fail_sims]))
          · rename_i hle; simp only [hle, if_false] at hnf
            split
            · rename_i hlt; simp only [hlt, if_true] at hnf
              exact afterStep_doneOk p c (fun _ => h1.of_pple (PPle.of_nextOnly (schedule_nextOnly _ _ _) q)) hnf
            · rename_i hlt; simp only [hlt, if_false] at hnf
              exact afterStep_doneOk p c (fun _ => h1) hnf
    · cases h
  | dataReply p d =>
    simp only [step, stepDataReply] at h
    split at h
    · cases hcur : (s.sims p).cur with
      | none => simp [hcur] at h
      | some c =>
        simp only [hcur, Option.some.injEq] at h
        subst h
        have h1 : DoneOk cfg ((s.upd p fun y => { y with outTime := (outTimeOf c d).2 }).emit (.got p c (outTimeOf c d).2 d.data)) q := by
          refine (hs q).of_pple ?_
          rw [PPle]; simp only [State.emit_sims]; rw [State.upd_sims]; split <;> exact ⟨rfl, TT.le_refl _⟩
        unfold processDataReply at hnf ⊢
        simp only at hnf ⊢
        split
        · exact h1.of_pple (PPle.of_eq (by rw [State.fail_sims]))
        · rename_i hot; simp only [hot, if_false] at hnf
          exact finish_doneOk p c (fun _ => h1.of_pple (PPle.of_ctrlEq (storeOutputs_ctrlEq cfg _ p _ d).1 q)) hnf
    · cases h
  | tick n =>
    simp only [step, stepTick] at h
    split at h
    · cases h
    · cases h; exact (hs q).of_pple (PPle.of_eq rfl)

theorem reach_doneOk {cfg : Cfg} {s : State} (hr : Reach cfg s) : s.failed = none → ∀ q, DoneOk cfg s q := by
  induction hr with
  | init => intro _ q hpc; simp [initState, initSim] at hpc
  | @step s s' a _ hstep ih =>
    intro hnf
    have hf0 : s.failed = none := by
      cases hf : s.failed with
      | none => rfl
      | some e => rw [step_none_of_failed (by rw [hf]; rfl)] at hstep; cases hstep
    exact step_doneOk (ih hf0) hstep hnf

end Mosaik
