/-
Which errors can abort a run, and exactly when.  From a state satisfying the invariants an action
either leaves the run un-failed or fails with one of the *external* errors (loop guard, malformed
reply, refused asynchronous request, set_event outside real-time mode) — never with one of the
internal consistency errors (`progressBackwards`, `stepInPast`).
-/
import MosaikProofs.Sched.Trace
namespace Mosaik

theorem fail_eq {s : State} (h : s.failed = none) (e : SchedErr) : (s.fail e).failed = some e := by
  simp [State.fail, h]

/-- the cause of each error -/
def Cause (cfg : Cfg) (s : State) (a : Action) : SchedErr → Prop
  | .loop p => a = .deps p ∧ ∃ c, (s.sims p).pc = .waitDeps c ∧ (c.tail.any fun k => decide (k ≥ cfg.maxLoop)) = true
  | .badReply p .notInt => a = .stepReply p .bad
  | .badReply p .notLater => ∃ n c, a = .stepReply p (.int n) ∧ (s.sims p).cur = some c ∧ n ≤ (TT.time c : Int)
  | .badReply p .noNextStep => a = .stepReply p .none ∧ (cfg.sim p).ty = .timeBased
  | .badReply p .outputTimeEarly => ∃ d c, a = .dataReply p d ∧ (s.sims p).cur = some c ∧ (outTimeOf c d).1 < (TT.time c : Int)
  | .asyncRefused p => ∃ target, (a = .getDataReq p target ∨ ∃ es, a = .setData p target es) ∧ asyncAllowed cfg p target = false
  | .eventNotRt p => ∃ t, a = .setEvent p t ∧ cfg.rt = none
  | .progressBackwards _ => False
  | .stepInPast _ => False
  | .rtTooSlow _ => False

theorem afterStep_not_failed {cfg : Cfg} (hw : WFCfg cfg) {s : State} {p : Sid} (hp : p < cfg.n) {c : TT}
    (hf : s.failed = none) (hc : Core cfg s) (hpcs : Pcs cfg s) (hcur : (s.sims p).cur = some c) :
    (afterStep cfg s p c).failed = none := by
  unfold afterStep
  simp only [rtCheck_id hw, hf, Option.isSome_none, Bool.false_eq_true, if_false]
  split
  · rename_i hempty
    exact (finish_good hw hp hf hc (fun q hq _ => hpcs q hq) hcur (Or.inl (hw.trigReq p hp hempty))).1
  · exact hf

/-- every failure has an external cause -/
theorem step_err {cfg : Cfg} (hw : WFCfg cfg) {s s' : State} {a : Action} (hg : Good cfg s)
    (h : step cfg s a = some s') (e : SchedErr) (he : s'.failed = some e) : Cause cfg s a e := by
  cases a with
  | start p =>
    exfalso
    simp only [step] at h
    unfold stepStart at h
    split at h
    · rename_i hguard
      simp only [Bool.and_eq_true, live_iff, beq_iff_eq] at hguard
      obtain ⟨⟨hf, hp⟩, hpc⟩ := hguard
      obtain ⟨hc, hpcs⟩ := hg hf
      obtain ⟨g1, g2, g3, _, g5⟩ := advance_good (skip := cfg.n) hw hf hc (fun q hq _ => hpcs q hq) p hp
      simp only [g1, Option.isSome_none, Bool.false_eq_true, if_false, Option.some.injEq] at h
      subst h
      have hcur : ((advance cfg s p).sims p).cur = none := by
        rw [(g5 p).2.1]; exact (hpcs p hp).idle (by rw [hpc]; simp)
      rw [(settle_good hp g2 (fun q hq _ => g3 q hq (by omega)) hcur).1, g1] at he
      cases he
    · cases h
  | wake p =>
    exfalso
    simp only [step] at h
    unfold stepWake at h
    by_cases hguard : live cfg s p = true
    · obtain ⟨hf, hp⟩ := live_iff.mp hguard
      obtain ⟨hc, hpcs⟩ := hg hf
      simp only [hguard, if_true] at h
      cases hpc : (s.sims p).pc with
      | awaitSettle a dl =>
        simp only [hpc] at h
        split at h
        · simp only [hw.noRt, Option.isSome_none, Bool.false_eq_true, if_false, State.upd_failed, hf, Option.some.injEq] at h
          subst h
          have hfe : FieldsEq s (s.upd p fun x => { x with newer := false }) := by
            intro q; rw [State.upd_sims]; split <;> simp
          have hpcq : ∀ q, ((s.upd p fun x => { x with newer := false }).sims q).pc = (s.sims q).pc := by
            intro q; rw [State.upd_sims]; split <;> simp
          have hcur : ((s.upd p fun x => { x with newer := false }).sims p).cur = none := by
            rw [(hfe p).2.2.1]; exact (hpcs p hp).idle (by rw [hpc]; simp)
          rw [(settle_good hp (hfe.core hc) (fun q hq _ => hfe.pcOk_other (hpcq q) (hpcs q hq)) hcur).1] at he
          simp only [State.upd_failed, hf] at he
          cases he
        · cases h
      | init => simp [hpc] at h
      | waitDeps t => simp [hpc] at h
      | inStep => simp [hpc] at h
      | inGet => simp [hpc] at h
      | done => simp [hpc] at h
    · simp [hguard] at h
  | deps p =>
    simp only [step] at h
    unfold stepDeps at h
    by_cases hguard : live cfg s p = true
    · obtain ⟨hf, hp⟩ := live_iff.mp hguard
      obtain ⟨hc, hpcs⟩ := hg hf
      simp only [hguard, if_true] at h
      cases hpc : (s.sims p).pc with
      | waitDeps t =>
        simp only [hpc] at h
        split at h
        · cases hnext : (s.sims p).next with
          | nil => simp [hnext] at h
          | cons c rest =>
            simp only [hnext, Option.some.injEq] at h
            subst h
            obtain ⟨w1, w2, w3⟩ := (hpcs p hp).waiting t hpc
            have hct : c = t := by rw [hnext] at w1; simpa using w1
            subst hct
            unfold beginStep at he
            simp only [w2, ne_eq, not_true_eq_false, if_false] at he
            cases hloop : (c.tail.any fun k => decide (k ≥ cfg.maxLoop)) with
            | true =>
              simp only [hloop, if_true] at he
              rw [fail_eq (by simpa using hf)] at he
              cases he
              exact ⟨rfl, c, hpc, hloop⟩
            | false =>
              exfalso
              simp only [hloop, Bool.false_eq_true, if_false] at he
              obtain ⟨f, _, hsnd⟩ := getInputData_snd cfg (s.upd p fun x => { x with cur := some c, next := rest }) p c
              rw [hsnd] at he
              simp only [State.emit_failed, State.upd_failed, hf] at he
              cases he
        · cases h
      | init => simp [hpc] at h
      | awaitSettle a dl => simp [hpc] at h
      | inStep => simp [hpc] at h
      | inGet => simp [hpc] at h
      | done => simp [hpc] at h
    · simp [hguard] at h
  | setData p target entries =>
    simp only [step] at h
    unfold stepSetData at h
    split at h
    · rename_i hguard
      simp only [Bool.and_eq_true, live_iff, beq_iff_eq] at hguard
      obtain ⟨⟨hf, _⟩, _⟩ := hguard
      split at h
      · rename_i hna
        cases h
        rw [fail_eq hf] at he; cases he
        exact ⟨target, Or.inr ⟨entries, rfl⟩, by simpa using hna⟩
      · cases h
        simp only [State.upd_failed, hf] at he; cases he
    · cases h
  | getDataReq p target =>
    simp only [step] at h
    unfold stepGetDataReq at h
    split at h
    · rename_i hguard
      simp only [Bool.and_eq_true, live_iff, beq_iff_eq] at hguard
      obtain ⟨⟨hf, _⟩, _⟩ := hguard
      split at h
      · rename_i hna
        cases h
        rw [fail_eq hf] at he; cases he
        exact ⟨target, Or.inl rfl, by simpa using hna⟩
      · cases h; rw [hf] at he; cases he
    · cases h
  | setEvent p t =>
    simp only [step] at h
    unfold stepSetEvent at h
    split at h
    · rename_i hguard
      obtain ⟨hf, _⟩ := live_iff.mp hguard
      simp only [hw.noRt, Option.isNone_none, if_true, Option.some.injEq] at h
      subst h
      rw [fail_eq hf] at he; cases he
      exact ⟨t, rfl, hw.noRt⟩
    · cases h
  | stepReply p r =>
    simp only [step] at h
    unfold stepStepReply at h
    split at h
    · rename_i hguard
      simp only [Bool.and_eq_true, live_iff, beq_iff_eq] at hguard
      obtain ⟨⟨hf, hp⟩, hpc⟩ := hguard
      obtain ⟨hc, hpcs⟩ := hg hf
      cases hcur : (s.sims p).cur with
      | none => simp [hcur] at h
      | some c =>
        simp only [hcur, Option.some.injEq] at h
        subst h
        have hpo := hc p hp
        have hce : CtrlEq s ((s.upd p fun x => { x with last := some c }).emit (.stepped p c)) :=
          (ctrlEq_upd s p (fun x => { x with last := some c }) (fun _ => rfl)).trans (ctrlEq_emit _ _)
        have hc1 := hce.core hc
        have hp1 := hce.pcs hpcs
        have hcur1 : (((s.upd p fun x => { x with last := some c }).emit (.stepped p c)).sims p).cur = some c := by
          rw [(hce.fields p).2.2.2.1]; exact hcur
        have hf1 : ((s.upd p fun x => { x with last := some c }).emit (.stepped p c)).failed = none := hf
        unfold processStepReply at he
        simp only at he
        cases r with
        | bad =>
          simp only at he
          rw [fail_eq hf1] at he; cases he
          rfl
        | none =>
          simp only at he
          split at he
          · rename_i hty
            rw [fail_eq hf1] at he; cases he
            exact ⟨rfl, hty⟩
          · rw [afterStep_not_failed hw hp hf1 hc1 hp1 hcur1] at he; cases he
        | int n =>
          simp only at he
          split at he
          · rename_i hle
            rw [fail_eq hf1] at he; cases he
            exact ⟨n, c, rfl, hcur, hle⟩
          · rename_i hnl
            exfalso
            split at he
            · rename_i hlt
              have hd := hw.depth p hp
              have htime : TT.time c < TT.time (ofWorld (cfg.sim p).depth n.toNat) := by
                rw [time_ofWorld hd]; omega
              have hct : c < ofWorld (cfg.sim p).depth n.toNat := TT.lt_of_time_lt htime
              have hprog1 : (((s.upd p fun x => { x with last := some c }).emit (.stepped p c)).sims p).progress = c := by
                rw [(hce.fields p).2.1]; exact hpo.cur_eq c hcur
              obtain ⟨g1, g2⟩ := schedule_good (skip := cfg.n) hc1 (fun q hq _ => hp1 q hq) p
                (ofWorld (cfg.sim p).depth n.toNat)
                (by rw [hprog1]; exact TT.le_of_lt hct)
                (by
                  intro bb hbb
                  have := (hc1 p hp).begun_le bb hbb
                  rw [hprog1] at this
                  exact TT.lt_of_le_of_lt this hct)
                (by
                  intro q hq ad had hap
                  have := (hc1 q hq).anc ad had c (by rw [hap]; exact front_cur hcur1)
                  exact TT.le_trans this (TI.act_mono_left _ (TT.le_of_lt hct)))
              obtain ⟨e1, e2, _, _⟩ := schedule_fields ((s.upd p fun x => { x with last := some c }).emit (.stepped p c)) p
                (ofWorld (cfg.sim p).depth n.toNat)
              rw [afterStep_not_failed hw hp (by rw [e1]; exact hf1) g1 (fun q hq => g2 q hq (by omega))
                (by rw [(e2 p).2.1]; exact hcur1)] at he
              cases he
            · rw [afterStep_not_failed hw hp hf1 hc1 hp1 hcur1] at he; cases he
    · cases h
  | dataReply p d =>
    simp only [step] at h
    unfold stepDataReply at h
    split at h
    · rename_i hguard
      simp only [Bool.and_eq_true, live_iff, beq_iff_eq] at hguard
      obtain ⟨⟨hf, hp⟩, hpc⟩ := hguard
      obtain ⟨hc, hpcs⟩ := hg hf
      cases hcur : (s.sims p).cur with
      | none => simp [hcur] at h
      | some c =>
        simp only [hcur, Option.some.injEq] at h
        subst h
        unfold processDataReply at he
        simp only at he
        split at he
        · rename_i hot
          rw [fail_eq (by simpa using hf)] at he; cases he
          exact ⟨d, c, rfl, hcur, by omega⟩
        · rename_i hot
          exfalso
          have hce1 : CtrlEq s ((s.upd p fun x => { x with outTime := (outTimeOf c d).2 }).emit (.got p c (outTimeOf c d).2 d.data)) :=
            (ctrlEq_upd s p (fun x => { x with outTime := (outTimeOf c d).2 }) (fun _ => rfl)).trans (ctrlEq_emit _ _)
          obtain ⟨hce2, hf2, hout2⟩ := storeOutputs_ctrlEq cfg
            ((s.upd p fun x => { x with outTime := (outTimeOf c d).2 }).emit (.got p c (outTimeOf c d).2 d.data)) p (outTimeOf c d).1 d
          have hce := hce1.trans hce2
          rw [(finish_good hw hp (by rw [hf2]; exact hf) (hce.core hc)
            (fun q hq _ => hce.pcOk (hpcs q hq)) (by rw [(hce.fields p).2.2.2.1]; exact hcur)
            (Or.inr (by rw [hout2]; simp; exact le_outTimeOf c d hot))).1] at he
          cases he
    · cases h
  | tick n => simp [step, stepTick_none hw] at h

end Mosaik
