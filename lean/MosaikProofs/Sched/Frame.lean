/-
Frame properties of one action: progress never decreases, the list of begun steps only grows, and
it grows exactly when `deps` fires, by the step that was awaited.
-/
import MosaikProofs.Sched.Reach
namespace Mosaik

/-- `s'` is a later state than `s`: progress grew, begun steps are kept -/
structure Later (s s' : State) : Prop where
  progress : ∀ q, (s.sims q).progress ≤ (s'.sims q).progress
  begun : ∀ q, (s'.sims q).begun = (s.sims q).begun

theorem Later.refl (s : State) : Later s s := ⟨fun _ => TT.le_refl _, fun _ => rfl⟩
theorem Later.trans {s s' s'' : State} (h1 : Later s s') (h2 : Later s' s'') : Later s s'' :=
  ⟨fun q => TT.le_trans (h1.progress q) (h2.progress q), fun q => (h2.begun q).trans (h1.begun q)⟩

theorem Later.of_fieldsEq {s s' : State} (h : FieldsEq s s') : Later s s' :=
  ⟨fun q => TT.le_of_eq (h q).1.symm, fun q => (h q).2.2.2⟩
theorem Later.of_ctrlEq {s s' : State} (h : CtrlEq s s') : Later s s' :=
  ⟨fun q => TT.le_of_eq (h.fields q).2.1.symm, fun q => (h.fields q).2.2.2.2⟩
theorem Later.of_nextOnly {s s' : State} (h : NextOnly s s') : Later s s' :=
  ⟨fun q => TT.le_of_eq (h q).1.symm, fun q => (h q).2.1⟩

theorem settle_later {cfg : Cfg} {s : State} {p : Sid} (hp : p < cfg.n) (hc : Core cfg s)
    (hpcs : ∀ q, q < cfg.n → q ≠ p → PcOk cfg s q) (hcur : (s.sims p).cur = none) : Later s (settle cfg s p) :=
  Later.of_fieldsEq (settle_good hp hc hpcs hcur).2.2.2

theorem finish_later {cfg : Cfg} (hw : WFCfg cfg) {s : State} {p : Sid} (hp : p < cfg.n) {c : TT}
    (hf : s.failed = none) (hc : Core cfg s) (hpcs : ∀ q, q < cfg.n → q ≠ p → PcOk cfg s q)
    (hcur : (s.sims p).cur = some c)
    (hout : (cfg.sim p).triggers = [] ∨ c ≤ (s.sims p).outTime) : Later s (finish cfg s p c) := by
  obtain ⟨hc1, hp1, he1, hcur1, hout1, hf1⟩ := clearCur_good hp hc hpcs hcur
  have hl1 : Later s (clearCur s p c) := by
    constructor
    · intro q; apply TT.le_of_eq
      simp only [clearCur, State.emit_sims]; rw [State.upd_sims]; split <;> rfl
    · intro q
      simp only [clearCur, State.emit_sims]; rw [State.upd_sims]; split <;> rfl
  obtain ⟨hc2, hp2, hn2, hf2⟩ := notify_good hw hp hc1 hp1 he1 (by rw [hout1]; exact hout)
  have hl2 := Later.of_nextOnly hn2
  obtain ⟨hf3, hc3, hp3, hpr3, hfld3⟩ := advanceAll_good hw (by rw [hf2, hf1]; exact hf) hc2 hp2
  have hl3 : Later (notify cfg (clearCur s p c) p) (advanceAll cfg (notify cfg (clearCur s p c) p)) :=
    ⟨hpr3, fun q => (hfld3 q).2.2.1⟩
  have hcur3 : ((advanceAll cfg (notify cfg (clearCur s p c) p)).sims p).cur = none := by
    rw [(hfld3 p).2.1, (hn2 p).2.2.1]; exact hcur1
  have hl123 := (hl1.trans hl2).trans hl3
  unfold finish
  simp only [hf3, Option.isSome_none, Bool.false_eq_true, if_false]
  split
  · have hce := prune_ctrlEq cfg (advanceAll cfg (notify cfg (clearCur s p c) p))
    have hcurp : ((prune cfg (advanceAll cfg (notify cfg (clearCur s p c) p))).sims p).cur = none := by
      rw [(hce.fields p).2.2.2.1]; exact hcur3
    exact (hl123.trans (Later.of_ctrlEq hce)).trans
      (settle_later hp (hce.core hc3) (fun q hq hqp => hce.pcOk (hp3 q hq hqp)) hcurp)
  · exact hl123.trans (settle_later hp hc3 hp3 hcur3)

theorem afterStep_later {cfg : Cfg} (hw : WFCfg cfg) {s : State} {p : Sid} (hp : p < cfg.n) {c : TT}
    (hf : s.failed = none) (hc : Core cfg s) (hpcs : Pcs cfg s) (hcur : (s.sims p).cur = some c) :
    Later s (afterStep cfg s p c) := by
  unfold afterStep
  simp only [rtCheck_id hw, hf, Option.isSome_none, Bool.false_eq_true, if_false]
  split
  · rename_i hempty
    exact finish_later hw hp hf hc (fun q hq _ => hpcs q hq) hcur (Or.inl (hw.trigReq p hp hempty))
  · exact Later.of_fieldsEq (fieldsEq_setPc s p .inGet)

/-- what one action does to progress and to the begun steps (in a run that has not failed) -/
theorem step_frame {cfg : Cfg} (hw : WFCfg cfg) {s s' : State} {a : Action} (hg : Good cfg s)
    (h : step cfg s a = some s') (hnf : s'.failed = none) :
    Later s s' ∨
    (∃ p c, a = .deps p ∧ p < cfg.n ∧ (s.sims p).pc = .waitDeps c ∧ depsReady cfg s p c = true ∧
      (s.sims p).progress = c ∧ (s.sims p).next.head? = some c ∧ TT.time c < cfg.until_ ∧
      (c.tail.any fun k => decide (k ≥ cfg.maxLoop)) = false ∧
      (∀ q, (s'.sims q).progress = (s.sims q).progress) ∧
      (s'.sims p).begun = c :: (s.sims p).begun ∧ (s'.sims p).cur = some c ∧
      (∀ q, q ≠ p → (s'.sims q).begun = (s.sims q).begun)) := by
  cases a with
  | start p =>
    left
    simp only [step] at h
    unfold stepStart at h
    split at h
    · rename_i hguard
      simp only [Bool.and_eq_true, live_iff, beq_iff_eq] at hguard
      obtain ⟨⟨hf, hp⟩, hpc⟩ := hguard
      obtain ⟨hc, hpcs⟩ := hg hf
      obtain ⟨g1, g2, g3, g4, g5⟩ := advance_good (skip := cfg.n) hw hf hc (fun q hq _ => hpcs q hq) p hp
      simp only [g1, Option.isSome_none, Bool.false_eq_true, if_false, Option.some.injEq] at h
      subst h
      have hcur : ((advance cfg s p).sims p).cur = none := by
        rw [(g5 p).2.1]; exact (hpcs p hp).idle (by rw [hpc]; simp)
      exact (Later.mk g4 (fun q => (g5 q).2.2.1)).trans
        (settle_later hp g2 (fun q hq _ => g3 q hq (by omega)) hcur)
    · cases h
  | wake p =>
    left
    simp only [step] at h
    unfold stepWake at h
    by_cases hguard : live cfg s p = true
    · obtain ⟨hf, hp⟩ := live_iff.mp hguard
      obtain ⟨hc, hpcs⟩ := hg hf
      simp only [hguard, if_true] at h
      cases hpc : (s.sims p).pc with
      | awaitSettle a dl =>
        simp only [hpc] at h
        split at h
        · simp only [hw.noRt, Option.isSome_none, Bool.false_eq_true, if_false, State.upd_failed, hf, Option.some.injEq] at h
          subst h
          have hfe : FieldsEq s (s.upd p fun x => { x with newer := false }) := by
            intro q; rw [State.upd_sims]; split <;> simp
          have hpcq : ∀ q, ((s.upd p fun x => { x with newer := false }).sims q).pc = (s.sims q).pc := by
            intro q; rw [State.upd_sims]; split <;> simp
          have hcur : ((s.upd p fun x => { x with newer := false }).sims p).cur = none := by
            rw [(hfe p).2.2.1]; exact (hpcs p hp).idle (by rw [hpc]; simp)
          exact (Later.of_fieldsEq hfe).trans
            (settle_later hp (hfe.core hc) (fun q hq _ => hfe.pcOk_other (hpcq q) (hpcs q hq)) hcur)
        · cases h
      | init => simp [hpc] at h
      | waitDeps t => simp [hpc] at h
      | inStep => simp [hpc] at h
      | inGet => simp [hpc] at h
      | done => simp [hpc] at h
    · simp [hguard] at h
  | deps p =>
    right
    simp only [step] at h
    unfold stepDeps at h
    by_cases hguard : live cfg s p = true
    · obtain ⟨hf, hp⟩ := live_iff.mp hguard
      obtain ⟨hc, hpcs⟩ := hg hf
      simp only [hguard, if_true] at h
      cases hpc : (s.sims p).pc with
      | waitDeps t =>
        simp only [hpc] at h
        split at h
        · rename_i hready
          cases hnext : (s.sims p).next with
          | nil => simp [hnext] at h
          | cons c rest =>
            simp only [hnext, Option.some.injEq] at h
            subst h
            obtain ⟨w1, w2, w3⟩ := (hpcs p hp).waiting t hpc
            have hct : c = t := by rw [hnext] at w1; simpa using w1
            subst hct
            unfold beginStep at hnf ⊢
            simp only [w2, ne_eq, not_true_eq_false, if_false] at hnf ⊢
            cases hloop : (c.tail.any fun k => decide (k ≥ cfg.maxLoop)) with
            | true =>
              simp only [hloop, if_true] at hnf
              have := State.fail_failed (s.upd p fun x => { x with cur := some c, next := rest }) (.loop p)
              rw [hnf] at this; cases this
            | false =>
              simp only [Bool.false_eq_true, if_false]
              obtain ⟨f, hfctrl, hsnd⟩ := getInputData_snd cfg (s.upd p fun x => { x with cur := some c, next := rest }) p c
              generalize hgi : getInputData cfg (s.upd p fun x => { x with cur := some c, next := rest }) p c = gi at hsnd
              obtain ⟨inp, s2⟩ := gi
              simp only at hsnd ⊢
              subst hsnd
              have hfc := hfctrl ({ s.sims p with cur := some c, next := rest })
              simp only [SimSt.ctrl, Prod.mk.injEq] at hfc
              obtain ⟨_, f2, f3, f4, f5⟩ := hfc
              refine ⟨p, c, rfl, hp, hpc, hready, w2, by rw [hnext]; rfl, w3, hloop, ?_, ?_, ?_, ?_⟩
              · intro q
                by_cases hq : q = p
                · subst hq; simp only [State.emit_sims, State.upd_same]; rw [f2]
                · simp [State.upd_other _ _ hq]
              · simp only [State.emit_sims, State.upd_same]; rw [f5]
              · simp only [State.emit_sims, State.upd_same]; exact f4
              · intro q hq; simp [State.upd_other _ _ hq]
        · cases h
      | init => simp [hpc] at h
      | awaitSettle a dl => simp [hpc] at h
      | inStep => simp [hpc] at h
      | inGet => simp [hpc] at h
      | done => simp [hpc] at h
    · simp [hguard] at h
  | setData p target entries =>
    left
    simp only [step] at h
    unfold stepSetData at h
    split at h
    · split at h
      · cases h
        have := State.fail_failed s (.asyncRefused p)
        rw [hnf] at this; cases this
      · cases h
        exact Later.of_ctrlEq (ctrlEq_upd s target _ (fun _ => rfl))
    · cases h
  | getDataReq p target =>
    left
    simp only [step] at h
    unfold stepGetDataReq at h
    split at h
    · split at h
      · cases h
        have := State.fail_failed s (.asyncRefused p)
        rw [hnf] at this; cases this
      · cases h; exact Later.refl _
    · cases h
  | setEvent p t =>
    left
    simp only [step] at h
    unfold stepSetEvent at h
    split at h
    · simp only [hw.noRt, Option.isNone_none, if_true, Option.some.injEq] at h
      subst h
      have := State.fail_failed s (.eventNotRt p)
      rw [hnf] at this; cases this
    · cases h
  | stepReply p r =>
    left
    simp only [step] at h
    unfold stepStepReply at h
    split at h
    · rename_i hguard
      simp only [Bool.and_eq_true, live_iff, beq_iff_eq] at hguard
      obtain ⟨⟨hf, hp⟩, hpc⟩ := hguard
      obtain ⟨hc, hpcs⟩ := hg hf
      cases hcur : (s.sims p).cur with
      | none => simp [hcur] at h
      | some c =>
        simp only [hcur, Option.some.injEq] at h
        subst h
        have hpo := hc p hp
        have hce : CtrlEq s ((s.upd p fun x => { x with last := some c }).emit (.stepped p c)) :=
          (ctrlEq_upd s p (fun x => { x with last := some c }) (fun _ => rfl)).trans (ctrlEq_emit _ _)
        have hc1 := hce.core hc
        have hp1 := hce.pcs hpcs
        have hcur1 : (((s.upd p fun x => { x with last := some c }).emit (.stepped p c)).sims p).cur = some c := by
          rw [(hce.fields p).2.2.2.1]; exact hcur
        have hf1 : ((s.upd p fun x => { x with last := some c }).emit (.stepped p c)).failed = none := hf
        have hl1 := Later.of_ctrlEq hce
        have hfailed : ∀ e, ¬ ((((s.upd p fun x => { x with last := some c }).emit (.stepped p c)).fail e).failed = none) := by
          intro e hh
          have := State.fail_failed ((s.upd p fun x => { x with last := some c }).emit (.stepped p c)) e
          rw [hh] at this; cases this
        unfold processStepReply at hnf ⊢
        simp only at hnf ⊢
        cases r with
        | bad => exact absurd hnf (hfailed _)
        | none =>
          simp only at hnf ⊢
          split at hnf
          · exact absurd hnf (hfailed _)
          · rename_i hty
            simp only [hty, if_false]
            exact hl1.trans (afterStep_later hw hp hf1 hc1 hp1 hcur1)
        | int n =>
          simp only at hnf ⊢
          split at hnf
          · exact absurd hnf (hfailed _)
          · rename_i hnl
            simp only [hnl, if_false]
            split
            · rename_i hlt
              have hd := hw.depth p hp
              have htime : TT.time c < TT.time (ofWorld (cfg.sim p).depth n.toNat) := by
                rw [time_ofWorld hd]; omega
              have hct : c < ofWorld (cfg.sim p).depth n.toNat := TT.lt_of_time_lt htime
              have hprog1 : (((s.upd p fun x => { x with last := some c }).emit (.stepped p c)).sims p).progress = c := by
                rw [(hce.fields p).2.1]; exact hpo.cur_eq c hcur
              obtain ⟨g1, g2⟩ := schedule_good (skip := cfg.n) hc1 (fun q hq _ => hp1 q hq) p
                (ofWorld (cfg.sim p).depth n.toNat)
                (by rw [hprog1]; exact TT.le_of_lt hct)
                (by
                  intro bb hbb
                  have := (hc1 p hp).begun_le bb hbb
                  rw [hprog1] at this
                  exact TT.lt_of_le_of_lt this hct)
                (by
                  intro q hq ad had hap
                  have := (hc1 q hq).anc ad had c (by rw [hap]; exact front_cur hcur1)
                  exact TT.le_trans this (TI.act_mono_left _ (TT.le_of_lt hct)))
              obtain ⟨e1, e2, _, _⟩ := schedule_fields ((s.upd p fun x => { x with last := some c }).emit (.stepped p c)) p
                (ofWorld (cfg.sim p).depth n.toNat)
              exact (hl1.trans (Later.of_nextOnly (schedule_nextOnly _ _ _))).trans
                (afterStep_later hw hp (by rw [e1]; exact hf1) g1 (fun q hq => g2 q hq (by omega))
                  (by rw [(e2 p).2.1]; exact hcur1))
            · exact hl1.trans (afterStep_later hw hp hf1 hc1 hp1 hcur1)
    · cases h
  | dataReply p d =>
    left
    simp only [step] at h
    unfold stepDataReply at h
    split at h
    · rename_i hguard
      simp only [Bool.and_eq_true, live_iff, beq_iff_eq] at hguard
      obtain ⟨⟨hf, hp⟩, hpc⟩ := hguard
      obtain ⟨hc, hpcs⟩ := hg hf
      cases hcur : (s.sims p).cur with
      | none => simp [hcur] at h
      | some c =>
        simp only [hcur, Option.some.injEq] at h
        subst h
        unfold processDataReply at hnf ⊢
        simp only at hnf ⊢
        split at hnf
        · have := State.fail_failed ((s.upd p fun x => { x with outTime := (outTimeOf c d).2 }).emit (.got p c (outTimeOf c d).2 d.data))
            (.badReply p .outputTimeEarly)
          rw [hnf] at this; cases this
        · rename_i hot
          simp only [hot, if_false]
          have hce1 : CtrlEq s ((s.upd p fun x => { x with outTime := (outTimeOf c d).2 }).emit (.got p c (outTimeOf c d).2 d.data)) :=
            (ctrlEq_upd s p (fun x => { x with outTime := (outTimeOf c d).2 }) (fun _ => rfl)).trans (ctrlEq_emit _ _)
          obtain ⟨hce2, hf2, hout2⟩ := storeOutputs_ctrlEq cfg
            ((s.upd p fun x => { x with outTime := (outTimeOf c d).2 }).emit (.got p c (outTimeOf c d).2 d.data)) p (outTimeOf c d).1 d
          have hce := hce1.trans hce2
          exact (Later.of_ctrlEq hce).trans (finish_later hw hp (by rw [hf2]; exact hf) (hce.core hc)
            (fun q hq _ => hce.pcOk (hpcs q hq)) (by rw [(hce.fields p).2.2.2.1]; exact hcur)
            (Or.inr (by rw [hout2]; simp; exact le_outTimeOf c d hot)))
    · cases h
  | tick n => simp [step, stepTick_none hw] at h

end Mosaik
