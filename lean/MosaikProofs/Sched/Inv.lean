/-
Invariants of the scheduler transition system (non-real-time mode), for every reachable state
under every order of enabled actions and every simulator behaviour.

`WFCfg` collects what the scheduler needs from the configuration: the closure properties of the
triggering-ancestor table (`cache_triggering_ancestors`) and the relation between trigger and
input delays (`connect_one`).  They are checked on every generated scenario by the driver
(`Cfg.wfB`), and delivered by the closure theorems.
-/
import MosaikProofs.Lemmas.SchedBasics
namespace Mosaik

structure WFCfg (cfg : Cfg) : Prop where
  noRt : cfg.rt = none
  depth : ∀ p, p < cfg.n → 0 < (cfg.sim p).depth
  trigTarget : ∀ x, x < cfg.n → ∀ tr ∈ (cfg.sim x).triggers, tr.2.1 < cfg.n
  ancRange : ∀ q, q < cfg.n → ∀ ad ∈ (cfg.sim q).trigAnc, ad.1 < cfg.n
  /-- a direct trigger connection is covered by the ancestor table -/
  direct : ∀ x, x < cfg.n → ∀ tr ∈ (cfg.sim x).triggers,
    ∃ d', (x, d') ∈ (cfg.sim tr.2.1).trigAnc ∧ TI.le d' tr.2.2
  /-- the ancestor table is closed under prefixing a trigger connection -/
  trans : ∀ x, x < cfg.n → ∀ tr ∈ (cfg.sim x).triggers, ∀ q, q < cfg.n → ∀ bd ∈ (cfg.sim q).trigAnc,
    bd.1 = tr.2.1 →
      (∃ d', (x, d') ∈ (cfg.sim q).trigAnc ∧ TI.le d' (TI.add tr.2.2 bd.2)) ∧ bd.2.cutoff ≤ tr.2.2.tiers.length
  /-- every trigger connection is an input connection, whose minimal delay is not larger -/
  trigInput : ∀ x, x < cfg.n → ∀ tr ∈ (cfg.sim x).triggers,
    ∃ d0, (x, d0) ∈ (cfg.sim tr.2.1).inputDelays ∧ TI.le d0 tr.2.2
  /-- delays in the ancestor table have the length of the descendant's times -/
  ancShape : ∀ q, q < cfg.n → ∀ ad ∈ (cfg.sim q).trigAnc, (cfg.sim q).depth ≤ ad.2.tiers.length
  /-- the initial schedule: at most the time-zero step or one initial event -/
  next0Ok : ∀ p, p < cfg.n → SortedTT (cfg.sim p).next0 ∧ ∀ t ∈ (cfg.sim p).next0, TT.zero (cfg.sim p).depth ≤ t
  /-- a simulator whose outputs nobody requested triggers nobody -/
  trigReq : ∀ x, x < cfg.n → (cfg.sim x).outReq.isEmpty = true → (cfg.sim x).triggers = []

/-- control invariants of one simulator (J1–J6 of DESIGN.md, Appendix A) -/
structure SimOk (cfg : Cfg) (s : State) (p : Sid) : Prop where
  le_end : (s.sims p).progress ≤ cfg.endT p
  le_next : ∀ t ∈ (s.sims p).next, (s.sims p).progress ≤ t
  cur_eq : ∀ c, (s.sims p).cur = some c → (s.sims p).progress = c
  cur_begun : ∀ c, (s.sims p).cur = some c → c ∈ (s.sims p).begun
  begun_lt_next : ∀ b ∈ (s.sims p).begun, ∀ t ∈ (s.sims p).next, b < t
  begun_le : ∀ b ∈ (s.sims p).begun, b ≤ (s.sims p).progress
  begun_sorted : (s.sims p).begun.Pairwise (fun a b => b < a)
  sorted : SortedTT (s.sims p).next
  /-- J4: progress never exceeds what a triggering ancestor's earliest unfinished step can cause -/
  anc : ∀ ad ∈ (cfg.sim p).trigAnc, ∀ f, front (s.sims ad.1) = some f → (s.sims p).progress ≤ TI.act f ad.2
  /-- J5: every step begun had all its input providers past it -/
  inputs : ∀ b ∈ (s.sims p).begun, ∀ qd ∈ (cfg.sim p).inputDelays, b < TI.act (s.sims qd.1).progress qd.2

/-- consistency of the program counter with the control state -/
structure PcOk (cfg : Cfg) (s : State) (p : Sid) : Prop where
  inflight : ((s.sims p).pc = .inStep ∨ (s.sims p).pc = .inGet) → ∃ c, (s.sims p).cur = some c
  idle : ¬ ((s.sims p).pc = .inStep ∨ (s.sims p).pc = .inGet) → (s.sims p).cur = none
  waiting : ∀ t, (s.sims p).pc = .waitDeps t →
    (s.sims p).next.head? = some t ∧ (s.sims p).progress = t ∧ TT.time t < cfg.until_

def Core (cfg : Cfg) (s : State) : Prop := ∀ p, p < cfg.n → SimOk cfg s p
def Pcs (cfg : Cfg) (s : State) : Prop := ∀ p, p < cfg.n → PcOk cfg s p

/-- the invariant: in every state that has not failed, all simulators are consistent -/
def Good (cfg : Cfg) (s : State) : Prop := s.failed = none → Core cfg s ∧ Pcs cfg s

/-! ### states that agree on the control part -/

/-- the fields the invariants talk about -/
def SimSt.ctrl (x : SimSt) : PC × TT × List TT × Option TT × List TT := (x.pc, x.progress, x.next, x.cur, x.begun)

/-- `s'` differs from `s` only in data-flow fields / log / clock -/
def CtrlEq (s s' : State) : Prop := ∀ q, (s'.sims q).ctrl = (s.sims q).ctrl

theorem CtrlEq.fields {s s' : State} (h : CtrlEq s s') (q : Sid) :
    (s'.sims q).pc = (s.sims q).pc ∧ (s'.sims q).progress = (s.sims q).progress ∧ (s'.sims q).next = (s.sims q).next ∧
    (s'.sims q).cur = (s.sims q).cur ∧ (s'.sims q).begun = (s.sims q).begun := by
  have := h q
  simp only [SimSt.ctrl, Prod.mk.injEq] at this
  exact this

theorem CtrlEq.front {s s' : State} (h : CtrlEq s s') (q : Sid) : front (s'.sims q) = front (s.sims q) := by
  obtain ⟨_, _, h3, h4, _⟩ := h.fields q
  simp [Mosaik.front, h3, h4]

theorem CtrlEq.simOk {cfg : Cfg} {s s' : State} (h : CtrlEq s s') {p : Sid} (hp : SimOk cfg s p) : SimOk cfg s' p := by
  obtain ⟨_, h2, h3, h4, h5⟩ := h.fields p
  constructor
  · rw [h2]; exact hp.le_end
  · rw [h2, h3]; exact hp.le_next
  · rw [h2, h4]; exact hp.cur_eq
  · rw [h4, h5]; exact hp.cur_begun
  · rw [h3, h5]; exact hp.begun_lt_next
  · rw [h2, h5]; exact hp.begun_le
  · rw [h5]; exact hp.begun_sorted
  · rw [h3]; exact hp.sorted
  · intro ad had f hf
    rw [h.front] at hf
    rw [h2]; exact hp.anc ad had f hf
  · intro b hb qd hqd
    rw [h5] at hb
    rw [(h.fields qd.1).2.1]; exact hp.inputs b hb qd hqd

theorem CtrlEq.pcOk {cfg : Cfg} {s s' : State} (h : CtrlEq s s') {p : Sid} (hp : PcOk cfg s p) : PcOk cfg s' p := by
  obtain ⟨h1, h2, h3, h4, _⟩ := h.fields p
  constructor
  · rw [h1, h4]; exact hp.inflight
  · rw [h1, h4]; exact hp.idle
  · rw [h1, h2, h3]; exact hp.waiting

theorem CtrlEq.core {cfg : Cfg} {s s' : State} (h : CtrlEq s s') (hc : Core cfg s) : Core cfg s' :=
  fun p hp => h.simOk (hc p hp)
theorem CtrlEq.pcs {cfg : Cfg} {s s' : State} (h : CtrlEq s s') (hc : Pcs cfg s) : Pcs cfg s' :=
  fun p hp => h.pcOk (hc p hp)

theorem CtrlEq.refl (s : State) : CtrlEq s s := fun _ => rfl
theorem CtrlEq.trans {s s' s'' : State} (h1 : CtrlEq s s') (h2 : CtrlEq s' s'') : CtrlEq s s'' :=
  fun q => (h2 q).trans (h1 q)

/-- updating only data fields of one simulator -/
theorem ctrlEq_upd (s : State) (p : Sid) (f : SimSt → SimSt) (hf : ∀ x, (f x).ctrl = x.ctrl) : CtrlEq s (s.upd p f) := by
  intro q
  rw [State.upd_sims]
  split
  · exact hf _
  · rfl

theorem ctrlEq_emit (s : State) (e : Event) : CtrlEq s (s.emit e) := fun _ => rfl

end Mosaik

namespace Mosaik

/-! ### advance_progress -/

theorem rtCap_nil {cfg : Cfg} (hw : WFCfg cfg) (s : State) (p : Sid) : rtCap cfg s p = [] := by
  simp [rtCap, hw.noRt]

theorem mem_candidates {cfg : Cfg} (hw : WFCfg cfg) (s : State) (q : Sid) (x : TT) :
    x ∈ candidates cfg s q ↔
      (∃ ad ∈ (cfg.sim q).trigAnc, ∃ f, front (s.sims ad.1) = some f ∧ x = TI.act f ad.2) ∨
      (s.sims q).next.head? = some x ∨ (s.sims q).cur = some x := by
  unfold candidates
  rw [rtCap_nil hw]
  simp only [List.append_nil, List.mem_append, List.mem_filterMap, Option.map_eq_some_iff, Option.mem_toList, Option.mem_def]
  constructor
  · rintro ((⟨ad, had, f, hf, rfl⟩ | h) | h)
    · exact Or.inl ⟨ad, had, f, hf, rfl⟩
    · exact Or.inr (Or.inl h)
    · exact Or.inr (Or.inr h)
  · rintro (⟨ad, had, f, hf, rfl⟩ | h | h)
    · exact Or.inl (Or.inl ⟨ad, had, f, hf, rfl⟩)
    · exact Or.inl (Or.inr h)
    · exact Or.inr h

/-- J-mono: every candidate of `advance_progress` is at least the current progress -/
theorem candidates_ge {cfg : Cfg} (hw : WFCfg cfg) {s : State} {q : Sid} (hq : SimOk cfg s q) :
    ∀ x ∈ candidates cfg s q, (s.sims q).progress ≤ x := by
  intro x hx
  rcases (mem_candidates hw s q x).mp hx with ⟨ad, had, f, hf, rfl⟩ | h | h
  · exact hq.anc ad had f hf
  · exact hq.le_next x (List.mem_of_mem_head? h)
  · exact TT.le_of_eq (hq.cur_eq x h)

/-- the value `advance_progress` computes -/
def newProgress (cfg : Cfg) (s : State) (q : Sid) : TT := minTT (cfg.endT q) (candidates cfg s q)

theorem progress_le_new {cfg : Cfg} (hw : WFCfg cfg) {s : State} {q : Sid} (hq : SimOk cfg s q) :
    (s.sims q).progress ≤ newProgress cfg s q :=
  le_minTT _ _ _ hq.le_end (candidates_ge hw hq)

/-- "cannot progress backwards" is unreachable -/
theorem advance_eq {cfg : Cfg} (hw : WFCfg cfg) {s : State} {q : Sid} (hq : SimOk cfg s q) :
    advance cfg s q = s.upd q (fun x => { x with progress := newProgress cfg s q }) := by
  unfold advance
  have := progress_le_new hw hq
  have hn : ¬ newProgress cfg s q < (s.sims q).progress := TT.not_lt.mpr this
  unfold newProgress at hn
  simp only [hn, if_false]
  rfl

/-- raising the progress of `q` to a value below all its candidates keeps every invariant -/
theorem core_raise {cfg : Cfg} {s : State} (hc : Core cfg s) (q : Sid) (new : TT)
    (hold : (s.sims q).progress ≤ new) (hend : new ≤ cfg.endT q)
    (hcand : ∀ ad ∈ (cfg.sim q).trigAnc, ∀ f, front (s.sims ad.1) = some f → new ≤ TI.act f ad.2)
    (hhead : ∀ t, (s.sims q).next.head? = some t → new ≤ t)
    (hcur : ∀ c, (s.sims q).cur = some c → new ≤ c) :
    Core cfg (s.upd q fun x => { x with progress := new }) := by
  have hfront : ∀ a, front ((s.upd q fun x => { x with progress := new }).sims a) = front (s.sims a) := by
    intro a
    rw [State.upd_sims]; split <;> rfl
  have hprog : ∀ a, (s.sims a).progress ≤ ((s.upd q fun x => { x with progress := new }).sims a).progress := by
    intro a
    rw [State.upd_sims]; split
    · rename_i h; subst h; exact hold
    · exact TT.le_refl _
  intro p hp
  have hpo := hc p hp
  by_cases hpq : p = q
  · subst hpq
    have hfields : ((s.upd p fun x => { x with progress := new }).sims p) = { s.sims p with progress := new } := by simp
    constructor
    · rw [hfields]; exact hend
    · rw [hfields]; intro t ht
      simp only at ht ⊢
      cases hh : (s.sims p).next.head? with
      | none =>
        have : (s.sims p).next = [] := by simpa using hh
        rw [this] at ht; simp at ht
      | some h0 => exact TT.le_trans (hhead h0 hh) (head_le_of_sorted hpo.sorted hh ht)
    · rw [hfields]; intro c hcc
      simp only at hcc ⊢
      have h1 := hcur c hcc
      have h2 := hpo.cur_eq c hcc
      exact TT.le_antisymm h1 (h2 ▸ hold)
    · rw [hfields]; exact hpo.cur_begun
    · rw [hfields]; exact hpo.begun_lt_next
    · rw [hfields]; intro b hb; exact TT.le_trans (hpo.begun_le b hb) hold
    · rw [hfields]; exact hpo.begun_sorted
    · rw [hfields]; exact hpo.sorted
    · intro ad had f hf
      rw [hfront] at hf
      rw [hfields]; exact hcand ad had f hf
    · intro b hb qd hqd
      rw [hfields] at hb
      exact TT.lt_of_lt_of_le (hpo.inputs b hb qd hqd) (TI.act_mono_left _ (hprog qd.1))
  · have hsame : (s.upd q fun x => { x with progress := new }).sims p = s.sims p := State.upd_other _ _ hpq
    constructor
    · rw [hsame]; exact hpo.le_end
    · rw [hsame]; exact hpo.le_next
    · rw [hsame]; exact hpo.cur_eq
    · rw [hsame]; exact hpo.cur_begun
    · rw [hsame]; exact hpo.begun_lt_next
    · rw [hsame]; exact hpo.begun_le
    · rw [hsame]; exact hpo.begun_sorted
    · rw [hsame]; exact hpo.sorted
    · intro ad had f hf
      rw [hfront] at hf
      rw [hsame]; exact hpo.anc ad had f hf
    · intro b hb qd hqd
      rw [hsame] at hb
      exact TT.lt_of_lt_of_le (hpo.inputs b hb qd hqd) (TI.act_mono_left _ (hprog qd.1))

theorem pcs_raise {cfg : Cfg} {s : State} (hc : Core cfg s) (hpcs : ∀ p, p < cfg.n → p ≠ skip → PcOk cfg s p) (q : Sid) (new : TT)
    (hold : (s.sims q).progress ≤ new)
    (hhead : ∀ t, (s.sims q).next.head? = some t → new ≤ t) :
    ∀ p, p < cfg.n → p ≠ skip → PcOk cfg (s.upd q fun x => { x with progress := new }) p := by
  intro p hp hskip
  have hpo := hpcs p hp hskip
  by_cases hpq : p = q
  · subst hpq
    have hfields : ((s.upd p fun x => { x with progress := new }).sims p) = { s.sims p with progress := new } := by simp
    constructor
    · rw [hfields]; exact hpo.inflight
    · rw [hfields]; exact hpo.idle
    · rw [hfields]; intro t ht
      obtain ⟨h1, h2, h3⟩ := hpo.waiting t ht
      refine ⟨h1, ?_, h3⟩
      simp only
      exact TT.le_antisymm (hhead t h1) (h2 ▸ hold)
  · have hsame : (s.upd q fun x => { x with progress := new }).sims p = s.sims p := State.upd_other _ _ hpq
    constructor
    · rw [hsame]; exact hpo.inflight
    · rw [hsame]; exact hpo.idle
    · rw [hsame]; exact hpo.waiting

theorem newProgress_le_cand {cfg : Cfg} (hw : WFCfg cfg) (s : State) (q : Sid) :
    newProgress cfg s q ≤ cfg.endT q ∧
    (∀ ad ∈ (cfg.sim q).trigAnc, ∀ f, front (s.sims ad.1) = some f → newProgress cfg s q ≤ TI.act f ad.2) ∧
    (∀ t, (s.sims q).next.head? = some t → newProgress cfg s q ≤ t) ∧
    (∀ c, (s.sims q).cur = some c → newProgress cfg s q ≤ c) := by
  refine ⟨minTT_le_init _ _, ?_, ?_, ?_⟩
  · intro ad had f hf
    exact minTT_le_mem _ _ _ ((mem_candidates hw s q _).mpr (Or.inl ⟨ad, had, f, hf, rfl⟩))
  · intro t ht
    exact minTT_le_mem _ _ _ ((mem_candidates hw s q _).mpr (Or.inr (Or.inl ht)))
  · intro c hc
    exact minTT_le_mem _ _ _ ((mem_candidates hw s q _).mpr (Or.inr (Or.inr hc)))

/-- `advance_progress(q)` keeps the invariants and never fails -/
theorem advance_good {cfg : Cfg} (hw : WFCfg cfg) {s : State} (hf : s.failed = none) (hc : Core cfg s)
    (hpcs : ∀ p, p < cfg.n → p ≠ skip → PcOk cfg s p) (q : Sid) (hq : q < cfg.n) :
    (advance cfg s q).failed = none ∧ Core cfg (advance cfg s q) ∧
    (∀ p, p < cfg.n → p ≠ skip → PcOk cfg (advance cfg s q) p) ∧
    (∀ a, (s.sims a).progress ≤ ((advance cfg s q).sims a).progress) ∧
    (∀ a, ((advance cfg s q).sims a).next = (s.sims a).next ∧ ((advance cfg s q).sims a).cur = (s.sims a).cur ∧
          ((advance cfg s q).sims a).begun = (s.sims a).begun ∧ ((advance cfg s q).sims a).pc = (s.sims a).pc) := by
  rw [advance_eq hw (hc q hq)]
  obtain ⟨h1, h2, h3, h4⟩ := newProgress_le_cand hw s q
  have hold := progress_le_new hw (hc q hq)
  refine ⟨hf, core_raise hc q _ hold h1 h2 h3 h4, pcs_raise hc hpcs q _ hold h3, ?_, ?_⟩
  · intro a
    rw [State.upd_sims]; split
    · rename_i h; subst h; exact hold
    · exact TT.le_refl _
  · intro a
    rw [State.upd_sims]; split <;> simp

end Mosaik

namespace Mosaik

/-! ### schedule_step -/

theorem contains_false_not_mem {l : List TT} {t : TT} (h : l.contains t = false) : t ∉ l := by
  intro hm
  have : l.contains t = true := by simpa using hm
  rw [h] at this; cases this

/-- the fields of `schedule s b t` -/
theorem schedule_fields (s : State) (b : Sid) (t : TT) :
    (schedule s b t).failed = s.failed ∧
    (∀ a, ((schedule s b t).sims a).progress = (s.sims a).progress ∧ ((schedule s b t).sims a).cur = (s.sims a).cur ∧
          ((schedule s b t).sims a).begun = (s.sims a).begun ∧ ((schedule s b t).sims a).pc = (s.sims a).pc) ∧
    (∀ a, a ≠ b → ((schedule s b t).sims a).next = (s.sims a).next) ∧
    (((schedule s b t).sims b).next = (s.sims b).next ∨
      (t ∉ (s.sims b).next ∧ ((schedule s b t).sims b).next = insertSorted t (s.sims b).next)) := by
  unfold schedule
  by_cases hm : t ∈ (s.sims b).next
  · have hcont : (s.sims b).next.contains t = true := by simpa using hm
    simp [hm]
  · have hcont : (s.sims b).next.contains t = false := by simpa using hm
    simp only [hcont, Bool.false_eq_true, if_false]
    refine ⟨rfl, ?_, ?_, Or.inr ⟨hm, by simp⟩⟩
    · intro a; rw [State.upd_sims]; split <;> simp
    · intro a ha; rw [State.upd_other _ _ ha]

/-- scheduling a time that is safe for the target keeps every invariant -/
theorem schedule_good {cfg : Cfg} {s : State} (hc : Core cfg s)
    (hpcs : ∀ p, p < cfg.n → p ≠ skip → PcOk cfg s p) (b : Sid) (t : TT)
    (h1 : (s.sims b).progress ≤ t)
    (h2 : ∀ bb ∈ (s.sims b).begun, bb < t)
    (h3 : ∀ q, q < cfg.n → ∀ ad ∈ (cfg.sim q).trigAnc, ad.1 = b → (s.sims q).progress ≤ TI.act t ad.2) :
    Core cfg (schedule s b t) ∧ (∀ p, p < cfg.n → p ≠ skip → PcOk cfg (schedule s b t) p) := by
  obtain ⟨_, hall, hother, hb⟩ := schedule_fields s b t
  -- membership in the new next list
  have hmem : ∀ a x, x ∈ ((schedule s b t).sims a).next → x ∈ (s.sims a).next ∨ (a = b ∧ x = t) := by
    intro a x hx
    by_cases hab : a = b
    · subst hab
      rcases hb with hb | ⟨_, hb⟩
      · rw [hb] at hx; exact Or.inl hx
      · rw [hb] at hx
        rcases (mem_insertSorted t _ x).mp hx with h | h
        · exact Or.inr ⟨rfl, h⟩
        · exact Or.inl h
    · rw [hother a hab] at hx; exact Or.inl hx
  -- the new front of any simulator is the old one or `t` (for `b`)
  have hfront : ∀ a f, front ((schedule s b t).sims a) = some f → front (s.sims a) = some f ∨ (a = b ∧ f = t) := by
    intro a f hf
    unfold front at hf ⊢
    rw [(hall a).2.1] at hf
    cases hcur : (s.sims a).cur with
    | some c => rw [hcur] at hf; exact Or.inl hf
    | none =>
      rw [hcur] at hf
      simp only at hf ⊢
      rcases hmem a f (List.mem_of_mem_head? hf) with h | h
      · by_cases hab : a = b
        · subst hab
          rcases hb with hb | ⟨_, hb⟩
          · rw [hb] at hf; exact Or.inl hf
          · rw [hb, head_insertSorted] at hf
            cases hh : (s.sims a).next.head? with
            | none => rw [hh] at hf; simp at hf; exact Or.inr ⟨rfl, hf.symm⟩
            | some h0 =>
              rw [hh] at hf; simp only [Option.some.injEq] at hf
              split at hf
              · exact Or.inr ⟨rfl, hf.symm⟩
              · exact Or.inl (by rw [hf])
        · rw [hother a hab] at hf; exact Or.inl hf
      · exact Or.inr h
  constructor
  · intro p hp
    have hpo := hc p hp
    obtain ⟨e1, e2, e3, _⟩ := hall p
    constructor
    · rw [e1]; exact hpo.le_end
    · rw [e1]; intro x hx
      rcases hmem p x hx with h | ⟨rfl, rfl⟩
      · exact hpo.le_next x h
      · exact h1
    · rw [e1, e2]; exact hpo.cur_eq
    · rw [e2, e3]; exact hpo.cur_begun
    · rw [e3]; intro bb hbb x hx
      rcases hmem p x hx with h | ⟨rfl, rfl⟩
      · exact hpo.begun_lt_next bb hbb x h
      · exact h2 bb hbb
    · rw [e1, e3]; exact hpo.begun_le
    · rw [e3]; exact hpo.begun_sorted
    · by_cases hpb : p = b
      · subst hpb
        rcases hb with hb | ⟨hn, hb⟩
        · rw [hb]; exact hpo.sorted
        · rw [hb]; exact sorted_insertSorted t _ hpo.sorted hn
      · rw [hother p hpb]; exact hpo.sorted
    · intro ad had f hf
      rw [e1]
      rcases hfront ad.1 f hf with h | ⟨hab, rfl⟩
      · exact hpo.anc ad had f h
      · exact h3 p hp ad had hab
    · intro bb hbb qd hqd
      rw [e3] at hbb
      rw [(hall qd.1).1]; exact hpo.inputs bb hbb qd hqd
  · intro p hp hskip
    have hpo := hpcs p hp hskip
    obtain ⟨e1, e2, e3, e4⟩ := hall p
    constructor
    · rw [e4, e2]; exact hpo.inflight
    · rw [e4, e2]; exact hpo.idle
    · rw [e4, e1]; intro tb htb
      obtain ⟨w1, w2, w3⟩ := hpo.waiting tb htb
      refine ⟨?_, w2, w3⟩
      by_cases hpb : p = b
      · subst hpb
        rcases hb with hb | ⟨hn, hb⟩
        · rw [hb]; exact w1
        · rw [hb, head_insertSorted, w1]
          have : ¬ t < tb := TT.not_lt.mpr (w2 ▸ h1)
          simp [this]
      · rw [hother p hpb]; exact w1

end Mosaik

namespace Mosaik

/-! ### changes of the program counter only -/

/-- `s'` agrees with `s` on progress, next, cur, begun of every simulator -/
def FieldsEq (s s' : State) : Prop :=
  ∀ q, (s'.sims q).progress = (s.sims q).progress ∧ (s'.sims q).next = (s.sims q).next ∧
       (s'.sims q).cur = (s.sims q).cur ∧ (s'.sims q).begun = (s.sims q).begun

theorem FieldsEq.front {s s' : State} (h : FieldsEq s s') (q : Sid) : front (s'.sims q) = front (s.sims q) := by
  obtain ⟨_, h3, h4, _⟩ := h q
  simp [Mosaik.front, h3, h4]

theorem FieldsEq.simOk {cfg : Cfg} {s s' : State} (h : FieldsEq s s') {p : Sid} (hp : SimOk cfg s p) : SimOk cfg s' p := by
  obtain ⟨h2, h3, h4, h5⟩ := h p
  constructor
  · rw [h2]; exact hp.le_end
  · rw [h2, h3]; exact hp.le_next
  · rw [h2, h4]; exact hp.cur_eq
  · rw [h4, h5]; exact hp.cur_begun
  · rw [h3, h5]; exact hp.begun_lt_next
  · rw [h2, h5]; exact hp.begun_le
  · rw [h5]; exact hp.begun_sorted
  · rw [h3]; exact hp.sorted
  · intro ad had f hf
    rw [h.front] at hf
    rw [h2]; exact hp.anc ad had f hf
  · intro b hb qd hqd
    rw [h5] at hb
    rw [(h qd.1).1]; exact hp.inputs b hb qd hqd

theorem FieldsEq.core {cfg : Cfg} {s s' : State} (h : FieldsEq s s') (hc : Core cfg s) : Core cfg s' :=
  fun p hp => h.simOk (hc p hp)

theorem FieldsEq.pcOk_other {cfg : Cfg} {s s' : State} (h : FieldsEq s s') {p : Sid}
    (hpc : (s'.sims p).pc = (s.sims p).pc) (hp : PcOk cfg s p) : PcOk cfg s' p := by
  obtain ⟨h2, h3, h4, _⟩ := h p
  constructor
  · rw [hpc, h4]; exact hp.inflight
  · rw [hpc, h4]; exact hp.idle
  · rw [hpc, h2, h3]; exact hp.waiting

theorem fieldsEq_setPc (s : State) (p : Sid) (pc : PC) : FieldsEq s (s.upd p fun x => { x with pc := pc }) := by
  intro q; rw [State.upd_sims]; split <;> simp

/-- the re-evaluation of the next step (`next_step_settled` up to its first await) -/
theorem settle_good {cfg : Cfg} {s : State} {p : Sid} (hp : p < cfg.n) (hc : Core cfg s)
    (hpcs : ∀ q, q < cfg.n → q ≠ p → PcOk cfg s q) (hcur : (s.sims p).cur = none) :
    (settle cfg s p).failed = s.failed ∧ Core cfg (settle cfg s p) ∧ Pcs cfg (settle cfg s p) ∧
    FieldsEq s (settle cfg s p) := by
  -- in every branch only the pc of `p` (and the log) changes
  have key : ∀ (pc : PC), (pc ≠ .inStep ∧ pc ≠ .inGet) →
      (∀ t, pc = .waitDeps t → (s.sims p).next.head? = some t ∧ (s.sims p).progress = t ∧ TT.time t < cfg.until_) →
      ∀ (s' : State), s'.sims = (s.upd p fun x => { x with pc := pc }).sims → s'.failed = s.failed →
      s'.failed = s.failed ∧ Core cfg s' ∧ Pcs cfg s' ∧ FieldsEq s s' := by
    intro pc hne hwait s' hs' hf'
    have hfe : FieldsEq s s' := by
      intro q; rw [hs']; exact fieldsEq_setPc s p pc q
    refine ⟨hf', hfe.core hc, ?_, hfe⟩
    intro q hq
    by_cases hqp : q = p
    · subst hqp
      have hpc : (s'.sims q).pc = pc := by rw [hs']; simp
      obtain ⟨e2, e3, e4, _⟩ := hfe q
      constructor
      · rw [hpc]; rintro (h | h)
        · exact absurd h hne.1
        · exact absurd h hne.2
      · intro _; rw [e4]; exact hcur
      · rw [hpc, e2, e3]; exact hwait
    · refine hfe.pcOk_other ?_ (hpcs q hq hqp)
      rw [hs', State.upd_other _ _ hqp]
  unfold settle
  by_cases h1 : TT.time (s.sims p).progress ≥ cfg.until_
  · simp only [h1, if_true]
    exact key .done ⟨by simp, by simp⟩ (by intro t ht; cases ht) _ rfl rfl
  · simp only [h1, if_false]
    cases hh : (s.sims p).next.head? with
    | none =>
      simp only
      exact key _ ⟨by simp, by simp⟩ (by intro t ht; cases ht) _ rfl rfl
    | some h0 =>
      simp only
      by_cases h2 : h0 = (s.sims p).progress
      · simp only [h2, if_true]
        refine key _ ⟨by simp, by simp⟩ ?_ _ rfl rfl
        intro t ht
        cases ht
        exact ⟨by rw [hh, h2], rfl, by omega⟩
      · simp only [h2, if_false]
        exact key _ ⟨by simp, by simp⟩ (by intro t ht; cases ht) _ rfl rfl

end Mosaik

namespace Mosaik

/-! ### the end of a step: notify, advance all, prune, settle -/

theorem foldl_inv {α : Type} (P : State → Prop) (f : State → α → State) :
    ∀ (l : List α) (s : State), P s → (∀ st a, a ∈ l → P st → P (f st a)) → P (l.foldl f s)
  | [], _, h0, _ => h0
  | a :: as, s, h0, hstep => by
    simp only [List.foldl_cons]
    exact foldl_inv P f as (f s a) (hstep s a List.mem_cons_self h0)
      (fun st b hb hP => hstep st b (List.mem_cons_of_mem _ hb) hP)

/-- what `notify_dependencies` needs to know about the step that just ended: it was the
earliest unfinished step of `p`, and the facts the invariants give about it -/
structure Ended (cfg : Cfg) (s : State) (p : Sid) (c : TT) : Prop where
  anc : ∀ q, q < cfg.n → ∀ ad ∈ (cfg.sim q).trigAnc, ad.1 = p → (s.sims q).progress ≤ TI.act c ad.2
  inputs : ∀ b, b < cfg.n → ∀ bb ∈ (s.sims b).begun, ∀ qd ∈ (cfg.sim b).inputDelays, qd.1 = p → bb < TI.act c qd.2

/-- states that agree with `s` on progress, begun, cur, pc (only `next` may differ) -/
def NextOnly (s s' : State) : Prop :=
  ∀ q, (s'.sims q).progress = (s.sims q).progress ∧ (s'.sims q).begun = (s.sims q).begun ∧
       (s'.sims q).cur = (s.sims q).cur ∧ (s'.sims q).pc = (s.sims q).pc

theorem Ended.mono {cfg : Cfg} {s s' : State} {p : Sid} {c : TT} (h : Ended cfg s p c) (hn : NextOnly s s') :
    Ended cfg s' p c := by
  constructor
  · intro q hq ad had hp; rw [(hn q).1]; exact h.anc q hq ad had hp
  · intro b hb bb hbb qd hqd hp; rw [(hn b).2.1] at hbb; exact h.inputs b hb bb hbb qd hqd hp

/-- one trigger delivered by `notify_dependencies` -/
theorem notify_one {cfg : Cfg} (hw : WFCfg cfg) {st : State} {p : Sid} (hp : p < cfg.n) {c outT : TT}
    (hc : Core cfg st) (hpcs : ∀ q, q < cfg.n → q ≠ p → PcOk cfg st q) (he : Ended cfg st p c) (hout : c ≤ outT)
    (tr : Port × Sid × TI) (htr : tr ∈ (cfg.sim p).triggers) :
    Core cfg (schedule st tr.2.1 (TI.act outT tr.2.2)) ∧
    (∀ q, q < cfg.n → q ≠ p → PcOk cfg (schedule st tr.2.1 (TI.act outT tr.2.2)) q) := by
  have hb : tr.2.1 < cfg.n := hw.trigTarget p hp tr htr
  have hge : ∀ d, TI.act c d ≤ TI.act outT d := fun d => TI.act_mono_left d hout
  apply schedule_good hc hpcs
  · obtain ⟨d', hd', hle⟩ := hw.direct p hp tr htr
    exact TT.le_trans (TT.le_trans (he.anc _ hb (p, d') hd' rfl) (TI.act_mono_right c hle)) (hge _)
  · intro bb hbb
    obtain ⟨d0, hd0, hle⟩ := hw.trigInput p hp tr htr
    exact TT.lt_of_lt_of_le (TT.lt_of_lt_of_le (he.inputs _ hb bb hbb (p, d0) hd0 rfl) (TI.act_mono_right c hle)) (hge _)
  · intro q hq ad had hab
    obtain ⟨⟨d', hd', hle⟩, hcut⟩ := hw.trans p hp tr htr q hq ad had hab
    have h1 := he.anc q hq (p, d') hd' rfl
    have h2 : TI.act c d' ≤ TI.act c (TI.add tr.2.2 ad.2) := TI.act_mono_right c hle
    rw [← TI.act_act c tr.2.2 ad.2 hcut] at h2
    exact TT.le_trans (TT.le_trans h1 h2) (TI.act_mono_left _ (hge _))

theorem schedule_nextOnly (s : State) (b : Sid) (t : TT) : NextOnly s (schedule s b t) := by
  obtain ⟨_, hall, _, _⟩ := schedule_fields s b t
  intro q
  obtain ⟨e1, e2, e3, e4⟩ := hall q
  exact ⟨e1, e3, e2, e4⟩

theorem NextOnly.refl (s : State) : NextOnly s s := fun _ => ⟨rfl, rfl, rfl, rfl⟩
theorem NextOnly.trans {s s' s'' : State} (h1 : NextOnly s s') (h2 : NextOnly s' s'') : NextOnly s s'' := by
  intro q
  obtain ⟨a1, a2, a3, a4⟩ := h1 q
  obtain ⟨b1, b2, b3, b4⟩ := h2 q
  exact ⟨b1.trans a1, b2.trans a2, b3.trans a3, b4.trans a4⟩

/-- all of `notify_dependencies` -/
theorem notify_good {cfg : Cfg} (hw : WFCfg cfg) {s : State} {p : Sid} (hp : p < cfg.n) {c : TT}
    (hc : Core cfg s) (hpcs : ∀ q, q < cfg.n → q ≠ p → PcOk cfg s q) (he : Ended cfg s p c)
    (hout : (cfg.sim p).triggers = [] ∨ c ≤ (s.sims p).outTime) :
    Core cfg (notify cfg s p) ∧ (∀ q, q < cfg.n → q ≠ p → PcOk cfg (notify cfg s p) q) ∧
    NextOnly s (notify cfg s p) ∧ (notify cfg s p).failed = s.failed := by
  unfold notify
  rcases hout with hnil | hout
  · rw [hnil, List.foldl_nil]
    exact ⟨hc, hpcs, NextOnly.refl s, rfl⟩
  · apply foldl_inv (fun st => Core cfg st ∧ (∀ q, q < cfg.n → q ≠ p → PcOk cfg st q) ∧ NextOnly s st ∧ st.failed = s.failed)
    · exact ⟨hc, hpcs, NextOnly.refl s, rfl⟩
    · intro st tr htr ⟨h1, h2, h3, h4⟩
      split
      · obtain ⟨g1, g2⟩ := notify_one hw hp h1 h2 (he.mono h3) hout tr htr
        exact ⟨g1, g2, h3.trans (schedule_nextOnly _ _ _), by rw [(schedule_fields st _ _).1, h4]⟩
      · exact ⟨h1, h2, h3, h4⟩

/-- `advance_progress` for every simulator -/
theorem advanceAll_good {cfg : Cfg} (hw : WFCfg cfg) {s : State} (hf : s.failed = none) (hc : Core cfg s)
    (hpcs : ∀ q, q < cfg.n → q ≠ skip → PcOk cfg s q) :
    (advanceAll cfg s).failed = none ∧ Core cfg (advanceAll cfg s) ∧
    (∀ q, q < cfg.n → q ≠ skip → PcOk cfg (advanceAll cfg s) q) ∧
    (∀ a, (s.sims a).progress ≤ ((advanceAll cfg s).sims a).progress) ∧
    (∀ a, ((advanceAll cfg s).sims a).next = (s.sims a).next ∧ ((advanceAll cfg s).sims a).cur = (s.sims a).cur ∧
          ((advanceAll cfg s).sims a).begun = (s.sims a).begun ∧ ((advanceAll cfg s).sims a).pc = (s.sims a).pc) := by
  unfold advanceAll
  apply foldl_inv (fun st => st.failed = none ∧ Core cfg st ∧ (∀ q, q < cfg.n → q ≠ skip → PcOk cfg st q) ∧
      (∀ a, (s.sims a).progress ≤ (st.sims a).progress) ∧
      (∀ a, (st.sims a).next = (s.sims a).next ∧ (st.sims a).cur = (s.sims a).cur ∧
            (st.sims a).begun = (s.sims a).begun ∧ (st.sims a).pc = (s.sims a).pc))
  · exact ⟨hf, hc, hpcs, fun a => TT.le_refl _, fun a => ⟨rfl, rfl, rfl, rfl⟩⟩
  · intro st q hq ⟨h1, h2, h3, h4, h5⟩
    have hq' : q < cfg.n := by simpa using hq
    simp only [h1, Option.isSome_none, Bool.false_eq_true, if_false]
    obtain ⟨g1, g2, g3, g4, g5⟩ := advance_good hw h1 h2 h3 q hq'
    refine ⟨g1, g2, g3, fun a => TT.le_trans (h4 a) (g4 a), ?_⟩
    intro a
    obtain ⟨a1, a2, a3, a4⟩ := g5 a
    obtain ⟨b1, b2, b3, b4⟩ := h5 a
    exact ⟨a1.trans b1, a2.trans b2, a3.trans b3, a4.trans b4⟩

theorem prune_ctrlEq (cfg : Cfg) (s : State) : CtrlEq s (prune cfg s) := by
  intro q
  unfold prune
  simp only
  split <;> rfl

theorem prune_failed (cfg : Cfg) (s : State) : (prune cfg s).failed = s.failed := rfl

/-- `current_step = None` keeps the invariants: the front of `p` moves to a later step -/
theorem clearCur_good {cfg : Cfg} {s : State} {p : Sid} (hp : p < cfg.n) {c : TT}
    (hc : Core cfg s) (hpcs : ∀ q, q < cfg.n → q ≠ p → PcOk cfg s q) (hcur : (s.sims p).cur = some c) :
    Core cfg (clearCur s p c) ∧ (∀ q, q < cfg.n → q ≠ p → PcOk cfg (clearCur s p c) q) ∧
    Ended cfg (clearCur s p c) p c ∧ ((clearCur s p c).sims p).cur = none ∧
    ((clearCur s p c).sims p).outTime = (s.sims p).outTime ∧ (clearCur s p c).failed = s.failed := by
  have hpo := hc p hp
  have hended : Ended cfg s p c := by
    constructor
    · intro q hq ad had hap
      exact (hc q hq).anc ad had c (by rw [hap]; exact front_cur hcur)
    · intro b hb bb hbb qd hqd hqp
      have := (hc b hb).inputs bb hbb qd hqd
      rwa [hqp, hpo.cur_eq c hcur] at this
  have hsame : ∀ q, q ≠ p → (clearCur s p c).sims q = s.sims q := by
    intro q hq; simp [clearCur, State.upd_other _ _ hq]
  have hp' : (clearCur s p c).sims p = { s.sims p with cur := none } := by simp [clearCur]
  have hfront : ∀ a f, front ((clearCur s p c).sims a) = some f →
      (a ≠ p ∧ front (s.sims a) = some f) ∨ (a = p ∧ c < f) := by
    intro a f hfr
    by_cases hap : a = p
    · subst hap
      rw [hp'] at hfr
      simp only [front] at hfr
      exact Or.inr ⟨rfl, hpo.begun_lt_next c (hpo.cur_begun c hcur) f (List.mem_of_mem_head? hfr)⟩
    · rw [hsame a hap] at hfr; exact Or.inl ⟨hap, hfr⟩
  have hprog : ∀ a, ((clearCur s p c).sims a).progress = (s.sims a).progress ∧
      ((clearCur s p c).sims a).begun = (s.sims a).begun ∧ ((clearCur s p c).sims a).next = (s.sims a).next := by
    intro a
    by_cases hap : a = p
    · subst hap; rw [hp']; exact ⟨rfl, rfl, rfl⟩
    · rw [hsame a hap]; exact ⟨rfl, rfl, rfl⟩
  refine ⟨?_, ?_, ?_, by rw [hp'], by rw [hp'], rfl⟩
  · intro q hq
    have hqo := hc q hq
    obtain ⟨e1, e2, e3⟩ := hprog q
    have hcurq : ∀ c', ((clearCur s p c).sims q).cur = some c' → (s.sims q).cur = some c' := by
      intro c' h'
      by_cases hqp : q = p
      · subst hqp; rw [hp'] at h'; simp at h'
      · rwa [hsame q hqp] at h'
    constructor
    · rw [e1]; exact hqo.le_end
    · rw [e1, e3]; exact hqo.le_next
    · rw [e1]; intro c' h'; exact hqo.cur_eq c' (hcurq c' h')
    · rw [e2]; intro c' h'; exact hqo.cur_begun c' (hcurq c' h')
    · rw [e2, e3]; exact hqo.begun_lt_next
    · rw [e1, e2]; exact hqo.begun_le
    · rw [e2]; exact hqo.begun_sorted
    · rw [e3]; exact hqo.sorted
    · intro ad had f hfr
      rw [e1]
      rcases hfront ad.1 f hfr with ⟨_, h⟩ | ⟨hap, hlt⟩
      · exact hqo.anc ad had f h
      · exact TT.le_trans (hended.anc q hq ad had hap) (TI.act_mono_left _ (TT.le_of_lt hlt))
    · intro bb hbb qd hqd
      rw [e2] at hbb
      rw [(hprog qd.1).1]; exact hqo.inputs bb hbb qd hqd
  · intro q hq hqp
    have := hpcs q hq hqp
    constructor
    · rw [hsame q hqp]; exact this.inflight
    · rw [hsame q hqp]; exact this.idle
    · rw [hsame q hqp]; exact this.waiting
  · constructor
    · intro q hq ad had hap; rw [(hprog q).1]; exact hended.anc q hq ad had hap
    · intro b hb bb hbb qd hqd hqp; rw [(hprog b).2.1] at hbb; exact hended.inputs b hb bb hbb qd hqd hqp

/-- the whole block that ends a step -/
theorem finish_good {cfg : Cfg} (hw : WFCfg cfg) {s : State} {p : Sid} (hp : p < cfg.n) {c : TT}
    (hf : s.failed = none) (hc : Core cfg s) (hpcs : ∀ q, q < cfg.n → q ≠ p → PcOk cfg s q)
    (hcur : (s.sims p).cur = some c)
    (hout : (cfg.sim p).triggers = [] ∨ c ≤ (s.sims p).outTime) :
    (finish cfg s p c).failed = none ∧ Core cfg (finish cfg s p c) ∧ Pcs cfg (finish cfg s p c) := by
  obtain ⟨hc1, hp1, he1, hcur1, hout1, hf1⟩ := clearCur_good hp hc hpcs hcur
  obtain ⟨hc2, hp2, hn2, hf2⟩ := notify_good hw hp hc1 hp1 he1 (by rw [hout1]; exact hout)
  obtain ⟨hf3, hc3, hp3, _, hfld3⟩ := advanceAll_good hw (by rw [hf2, hf1]; exact hf) hc2 hp2
  have hcur3 : ((advanceAll cfg (notify cfg (clearCur s p c) p)).sims p).cur = none := by
    rw [(hfld3 p).2.1, (hn2 p).2.2.1]; exact hcur1
  unfold finish
  simp only [hf3, Option.isSome_none, Bool.false_eq_true, if_false]
  split
  · have hce := prune_ctrlEq cfg (advanceAll cfg (notify cfg (clearCur s p c) p))
    have hcurp : ((prune cfg (advanceAll cfg (notify cfg (clearCur s p c) p))).sims p).cur = none := by
      rw [(hce.fields p).2.2.2.1]; exact hcur3
    obtain ⟨g1, g2, g3, _⟩ := settle_good hp (hce.core hc3) (fun q hq hqp => hce.pcOk (hp3 q hq hqp)) hcurp
    exact ⟨by rw [g1, prune_failed]; exact hf3, g2, g3⟩
  · obtain ⟨g1, g2, g3, _⟩ := settle_good hp hc3 hp3 hcur3
    exact ⟨by rw [g1]; exact hf3, g2, g3⟩

end Mosaik
