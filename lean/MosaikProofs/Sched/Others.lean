/-
What an action of one simulator can change about another simulator (frame lemma).

`step_other_own`: an action whose actor is `p` leaves, for every other simulator `q`, the program
counter, the step in flight, the steps begun, the remembered persistent inputs and — unless the action
is a `set_data` addressed to `q` — the pending `set_data` inputs untouched.  (What it may change about
`q`: raise its progress, schedule steps, set `newer_step`, push values into its input buffer.)
-/
import MosaikProofs.Sched.Buffer
namespace Mosaik

/-- the simulator that performs the action -/
def Action.actor : Action → Option Sid
  | .start p => some p
  | .wake p => some p
  | .deps p => some p
  | .setData p _ _ => some p
  | .getDataReq p _ => some p
  | .setEvent p _ => some p
  | .stepReply p _ => some p
  | .dataReply p _ => some p
  | .tick _ => none

def SimSt.own (x : SimSt) : PC × Option TT × List TT × InputData × InputData := (x.pc, x.cur, x.begun, x.persistent, x.setData)

/-- `q` keeps its own fields -/
def OwnEq (q : Sid) (s s' : State) : Prop := (s'.sims q).own = (s.sims q).own

theorem OwnEq.refl (q : Sid) (s : State) : OwnEq q s s := rfl
theorem OwnEq.trans {q : Sid} {s s' s'' : State} (h1 : OwnEq q s s') (h2 : OwnEq q s' s'') : OwnEq q s s'' :=
  Eq.trans h2 h1
theorem ownEq_of_eq {q : Sid} {s s' : State} (h : s'.sims q = s.sims q) : OwnEq q s s' := by unfold OwnEq; rw [h]
theorem ownEq_upd_other {q p : Sid} (s : State) (f : SimSt → SimSt) (h : q ≠ p) : OwnEq q s (s.upd p f) :=
  ownEq_of_eq (State.upd_other _ _ h)
theorem ownEq_upd (q p : Sid) (s : State) (f : SimSt → SimSt) (hf : ∀ x, (f x).own = x.own) : OwnEq q s (s.upd p f) := by
  unfold OwnEq; rw [State.upd_sims]; split
  · exact hf _
  · rfl
theorem ownEq_emit (q : Sid) (s : State) (e : Event) : OwnEq q s (s.emit e) := rfl
theorem ownEq_fail (q : Sid) (s : State) (e : SchedErr) : OwnEq q s (s.fail e) := ownEq_of_eq (by rw [State.fail_sims])

theorem advance_ownEq (cfg : Cfg) (s : State) (p q : Sid) : OwnEq q s (advance cfg s p) := by
  unfold advance; simp only; split
  · exact ownEq_fail _ _ _
  · exact ownEq_upd _ _ _ _ (fun _ => rfl)

theorem advanceAll_ownEq (cfg : Cfg) (s : State) (q : Sid) : OwnEq q s (advanceAll cfg s) := by
  unfold advanceAll
  apply foldl_inv (fun st => OwnEq q s st)
  · exact OwnEq.refl q s
  · intro st p _ h; split
    · exact h
    · exact h.trans (advance_ownEq cfg st p q)

theorem settle_ownEq (cfg : Cfg) (s : State) {p q : Sid} (h : q ≠ p) : OwnEq q s (settle cfg s p) :=
  ownEq_of_eq (settle_other cfg s p h)

theorem schedule_ownEq (s : State) (b : Sid) (t : TT) (q : Sid) : OwnEq q s (schedule s b t) := by
  unfold schedule; simp only; split
  · exact OwnEq.refl q s
  · exact ownEq_upd _ _ _ _ (fun _ => rfl)

theorem notify_ownEq (cfg : Cfg) (s : State) (p q : Sid) : OwnEq q s (notify cfg s p) := by
  unfold notify
  apply foldl_inv (fun st => OwnEq q s st)
  · exact OwnEq.refl q s
  · intro st tr _ h; split
    · exact h.trans (schedule_ownEq _ _ _ q)
    · exact h

theorem prune_ownEq (cfg : Cfg) (s : State) (q : Sid) : OwnEq q s (prune cfg s) := by
  unfold OwnEq prune; simp only; split <;> rfl

theorem finish_ownEq (cfg : Cfg) (s : State) {p q : Sid} (c : TT) (h : q ≠ p) : OwnEq q s (finish cfg s p c) := by
  have hcc : OwnEq q s (clearCur s p c) := by
    unfold clearCur
    exact (ownEq_upd_other s _ h).trans (ownEq_emit _ _ _)
  have h3 : OwnEq q s (advanceAll cfg (notify cfg (clearCur s p c) p)) :=
    (hcc.trans (notify_ownEq cfg _ p q)).trans (advanceAll_ownEq cfg _ q)
  unfold finish; simp only
  split
  · exact h3
  · split
    · exact (h3.trans (prune_ownEq cfg _ q)).trans (settle_ownEq cfg _ h)
    · exact h3.trans (settle_ownEq cfg _ h)

theorem afterStep_ownEq (cfg : Cfg) (s : State) {p q : Sid} (c : TT) (h : q ≠ p) : OwnEq q s (afterStep cfg s p c) := by
  have h3 : OwnEq q s (rtCheck cfg s p c) := ownEq_of_eq (by rw [rtCheck_sims])
  unfold afterStep; simp only
  split
  · exact h3
  · split
    · exact h3.trans (finish_ownEq cfg _ c h)
    · exact h3.trans (ownEq_upd_other _ _ h)

theorem storeOutputs_ownEq (cfg : Cfg) (s : State) (p : Sid) (ot : Int) (d : DataReply) (q : Sid) :
    OwnEq q s (storeOutputs cfg s p ot d) := by
  unfold storeOutputs
  simp only
  refine OwnEq.trans ?_ (ownEq_upd _ p _ _ (fun _ => rfl))
  have h0 : OwnEq q s (if cfg.useCache then s.upd p fun x =>
      { x with outputs := if x.outputs.any (·.1 == ot) then x.outputs.map (fun e => if e.1 == ot then (ot, d.data) else e)
                          else x.outputs ++ [(ot, d.data)] } else s) := by
    split
    · exact ownEq_upd _ _ _ _ (fun _ => rfl)
    · exact OwnEq.refl q s
  apply foldl_inv (fun st => OwnEq q s st)
  · exact h0
  · intro st e _ h
    split
    · exact h
    · exact h.trans (ownEq_upd _ _ _ _ (fun _ => rfl))

/-- an action of another simulator leaves `q`'s own fields alone -/
theorem step_other_own {cfg : Cfg} {s s' : State} {a : Action} {q : Sid} (h : step cfg s a = some s')
    (hact : a.actor ≠ some q) (hset : ∀ p e, a ≠ .setData p q e) : OwnEq q s s' := by
  cases a with
  | start p =>
    have hqp : q ≠ p := fun e => hact (by rw [e]; rfl)
    simp only [step, stepStart] at h
    split at h
    · split at h
      · cases h; exact advance_ownEq cfg s p q
      · cases h; exact (advance_ownEq cfg s p q).trans (settle_ownEq cfg _ hqp)
    · cases h
  | wake p =>
    have hqp : q ≠ p := fun e => hact (by rw [e]; rfl)
    simp only [step, stepWake] at h
    split at h
    · cases hpc : (s.sims p).pc with
      | awaitSettle a dl =>
        simp only [hpc] at h
        split at h
        · have h1 : OwnEq q s (if cfg.rt.isSome then advance cfg (s.upd p fun y => { y with newer := false }) p
              else (s.upd p fun y => { y with newer := false })) := by
            have h0 : OwnEq q s (s.upd p fun y => { y with newer := false }) := ownEq_upd_other _ _ hqp
            split
            · exact h0.trans (advance_ownEq cfg _ p q)
            · exact h0
          generalize (if cfg.rt.isSome then advance cfg (s.upd p fun y => { y with newer := false }) p
              else (s.upd p fun y => { y with newer := false })) = s2 at h h1
          by_cases hfl : s2.failed.isSome = true
          · simp only [hfl, if_true, Option.some.injEq] at h
            subst h; exact h1
          · simp only [hfl, Bool.false_eq_true, if_false, Option.some.injEq] at h
            subst h; exact h1.trans (settle_ownEq cfg _ hqp)
        · cases h
      | init => simp [hpc] at h
      | waitDeps t => simp [hpc] at h
      | inStep => simp [hpc] at h
      | inGet => simp [hpc] at h
      | done => simp [hpc] at h
    · cases h
  | deps p =>
    have hqp : q ≠ p := fun e => hact (by rw [e]; rfl)
    simp only [step, stepDeps] at h
    split at h
    · cases hpc : (s.sims p).pc with
      | waitDeps t =>
        simp only [hpc] at h
        split at h
        · cases hnext : (s.sims p).next with
          | nil => simp [hnext] at h
          | cons c rest =>
            simp only [hnext, Option.some.injEq] at h
            subst h
            exact ownEq_of_eq (beginStep_other cfg s p c rest hqp)
        · cases h
      | init => simp [hpc] at h
      | awaitSettle a dl => simp [hpc] at h
      | inStep => simp [hpc] at h
      | inGet => simp [hpc] at h
      | done => simp [hpc] at h
    · cases h
  | setData p target entries =>
    simp only [step, stepSetData] at h
    split at h
    · split at h
      · cases h; exact ownEq_fail _ _ _
      · cases h
        have : q ≠ target := fun e => hset p entries (by rw [e])
        exact ownEq_upd_other _ _ this
    · cases h
  | getDataReq p target =>
    simp only [step, stepGetDataReq] at h
    split at h
    · split at h
      · cases h; exact ownEq_fail _ _ _
      · cases h; exact OwnEq.refl q s
    · cases h
  | setEvent p t =>
    simp only [step, stepSetEvent] at h
    split at h
    · split at h
      · cases h; exact ownEq_fail _ _ _
      · split at h
        · cases h; exact schedule_ownEq _ _ _ q
        · cases h; exact ownEq_emit _ _ _
    · cases h
  | stepReply p r =>
    have hqp : q ≠ p := fun e => hact (by rw [e]; rfl)
    simp only [step, stepStepReply] at h
    split at h
    · cases hcur : (s.sims p).cur with
      | none => simp [hcur] at h
      | some c =>
        simp only [hcur, Option.some.injEq] at h
        subst h
        have h1 : OwnEq q s ((s.upd p fun y => { y with last := some c }).emit (.stepped p c)) :=
          (ownEq_upd_other s _ hqp).trans (ownEq_emit _ _ _)
        unfold processStepReply
        simp only
        cases r with
        | bad => exact h1.trans (ownEq_fail _ _ _)
        | none =>
          simp only
          split
          · exact h1.trans (ownEq_fail _ _ _)
          · exact h1.trans (afterStep_ownEq cfg _ c hqp)
        | int n =>
          simp only
          split
          · exact h1.trans (ownEq_fail _ _ _)
          · split
            · exact (h1.trans (schedule_ownEq _ _ _ q)).trans (afterStep_ownEq cfg _ c hqp)
            · exact h1.trans (afterStep_ownEq cfg _ c hqp)
    · cases h
  | dataReply p d =>
    have hqp : q ≠ p := fun e => hact (by rw [e]; rfl)
    simp only [step, stepDataReply] at h
    split at h
    · cases hcur : (s.sims p).cur with
      | none => simp [hcur] at h
      | some c =>
        simp only [hcur, Option.some.injEq] at h
        subst h
        have h1 : OwnEq q s ((s.upd p fun y => { y with outTime := (outTimeOf c d).2 }).emit (.got p c (outTimeOf c d).2 d.data)) :=
          (ownEq_upd_other s _ hqp).trans (ownEq_emit _ _ _)
        unfold processDataReply
        simp only
        split
        · exact h1.trans (ownEq_fail _ _ _)
        · exact (h1.trans (storeOutputs_ownEq cfg _ p _ d q)).trans (finish_ownEq cfg _ c hqp)
    · cases h
  | tick n =>
    simp only [step, stepTick] at h
    split at h
    · cases h
    · cases h; exact OwnEq.refl q s

end Mosaik

namespace Mosaik

/-! ### the due part of another simulator's input buffer -/

/-- the entries a step at time `T` takes -/
def dueAt (T : Nat) (l : List BufEntry) : List BufEntry := l.filter (fun e => decide (e.time ≤ T))

theorem dueAt_insertBuf (T : Nat) (e : BufEntry) (he : ¬ e.time ≤ T) : ∀ l : List BufEntry, dueAt T (insertBuf e l) = dueAt T l
  | [] => by simp [insertBuf, dueAt, he]
  | y :: ys => by
    unfold insertBuf
    split
    · simp [dueAt, he]
    · have ih := dueAt_insertBuf T e he ys
      unfold dueAt at ih ⊢
      simp only [List.filter_cons, ih]

theorem storeOutputs_due (cfg : Cfg) (s : State) (p : Sid) (ot : Int) (d : DataReply) (q : Sid) (T : Nat)
    (hT : ∀ pe ∈ (cfg.sim p).push, pe.2.1 = q → T < ot.toNat + tier pe.2.2.1.tiers 0) :
    dueAt T ((storeOutputs cfg s p ot d).sims q).buffer = dueAt T (s.sims q).buffer := by
  unfold storeOutputs
  simp only
  have key : ∀ (l : List (Port × Sid × TI × Port)) (st : State), (∀ pe ∈ l, pe ∈ (cfg.sim p).push) →
      dueAt T (st.sims q).buffer = dueAt T (s.sims q).buffer →
      dueAt T ((l.foldl (fun st (e : Port × Sid × TI × Port) =>
        match OutData.get? d.data e.1 with
        | .none => st
        | some v => st.upd e.2.1 fun y =>
            { y with buffer := insertBuf { time := ot.toNat + tier e.2.2.1.tiers 0, ctr := y.ctr,
                                           key := { eid := e.2.2.2.1, attr := e.2.2.2.2, ssid := p, seid := e.1.1 }, val := v } y.buffer,
                     ctr := y.ctr + 1 }) st).sims q).buffer = dueAt T (s.sims q).buffer := by
    intro l
    induction l with
    | nil => intro st _ h; exact h
    | cons a l ih =>
      intro st hl h
      simp only [List.foldl_cons]
      apply ih _ (fun pe hpe => hl pe (List.mem_cons_of_mem _ hpe))
      split
      · exact h
      · rw [State.upd_sims]
        split
        · rename_i hq
          simp only
          rw [dueAt_insertBuf T _ (by
            have := hT a (hl a List.mem_cons_self) hq.symm
            simp only; omega)]
          exact h
        · exact h
  have hfold := key (cfg.sim p).push
  split
  · have h1 := hfold (s.upd p fun x =>
      { x with outputs := if x.outputs.any (·.1 == ot) then x.outputs.map (fun e => if e.1 == ot then (ot, d.data) else e)
                          else x.outputs ++ [(ot, d.data)] }) (fun _ h => h) (by
        rw [State.upd_sims]; split <;> rfl)
    rw [State.upd_sims]
    split
    · exact h1
    · exact h1
  · have h1 := hfold s (fun _ h => h) rfl
    rw [State.upd_sims]
    split
    · exact h1
    · exact h1

/-- an action of another simulator changes the due part of `q`'s buffer only by pushing values that are due at or
before `T` -/
theorem step_other_due {cfg : Cfg} {s s' : State} {a : Action} {q : Sid} (T : Nat) (h : step cfg s a = some s')
    (hact : a.actor ≠ some q)
    (hpush : ∀ p d c, a = .dataReply p d → (s.sims p).cur = some c → ¬ (TT.time c : Int) > (outTimeOf c d).1 →
      ∀ pe ∈ (cfg.sim p).push, pe.2.1 = q → T < (outTimeOf c d).1.toNat + tier pe.2.2.1.tiers 0) :
    dueAt T (s'.sims q).buffer = dueAt T (s.sims q).buffer := by
  have ofbb : ∀ {s1 s2 : State}, BBEq s1 s2 → dueAt T (s2.sims q).buffer = dueAt T (s1.sims q).buffer := by
    intro s1 s2 hbb
    have := hbb q
    simp only [SimSt.bb, Prod.mk.injEq] at this
    rw [this.1]
  cases a with
  | start p =>
    simp only [step, stepStart] at h
    split at h
    · split at h
      · cases h; exact ofbb (advance_bbEq cfg s p)
      · cases h; exact ofbb ((advance_bbEq cfg s p).trans (settle_bbEq cfg _ p))
    · cases h
  | wake p =>
    simp only [step, stepWake] at h
    split at h
    · cases hpc : (s.sims p).pc with
      | awaitSettle a dl =>
        simp only [hpc] at h
        split at h
        · have h1 : BBEq s (if cfg.rt.isSome then advance cfg (s.upd p fun y => { y with newer := false }) p
              else (s.upd p fun y => { y with newer := false })) := by
            have h0 : BBEq s (s.upd p fun y => { y with newer := false }) := bbEq_upd _ _ _ (fun _ => rfl)
            split
            · exact h0.trans (advance_bbEq cfg _ p)
            · exact h0
          generalize (if cfg.rt.isSome then advance cfg (s.upd p fun y => { y with newer := false }) p
              else (s.upd p fun y => { y with newer := false })) = s2 at h h1
          by_cases hfl2 : s2.failed.isSome = true
          · simp only [hfl2, if_true, Option.some.injEq] at h
            subst h; exact ofbb h1
          · simp only [hfl2, Bool.false_eq_true, if_false, Option.some.injEq] at h
            subst h; exact ofbb (h1.trans (settle_bbEq cfg _ p))
        · cases h
      | init => simp [hpc] at h
      | waitDeps t => simp [hpc] at h
      | inStep => simp [hpc] at h
      | inGet => simp [hpc] at h
      | done => simp [hpc] at h
    · cases h
  | deps p =>
    have hqp : q ≠ p := fun e => hact (by rw [e]; rfl)
    simp only [step, stepDeps] at h
    split at h
    · cases hpc : (s.sims p).pc with
      | waitDeps t =>
        simp only [hpc] at h
        split at h
        · cases hnext : (s.sims p).next with
          | nil => simp [hnext] at h
          | cons c rest =>
            simp only [hnext, Option.some.injEq] at h
            subst h
            rw [beginStep_other cfg s p c rest hqp]
        · cases h
      | init => simp [hpc] at h
      | awaitSettle a dl => simp [hpc] at h
      | inStep => simp [hpc] at h
      | inGet => simp [hpc] at h
      | done => simp [hpc] at h
    · cases h
  | setData p target entries =>
    simp only [step, stepSetData] at h
    split at h
    · split at h
      · cases h; exact ofbb (bbEq_fail _ _)
      · cases h
        exact ofbb (bbEq_upd s target
          (fun x => { x with setData := entries.foldl (fun acc e => InputData.set acc e.1 e.2) x.setData }) (fun _ => rfl))
    · cases h
  | getDataReq p target =>
    simp only [step, stepGetDataReq] at h
    split at h
    · split at h
      · cases h; exact ofbb (bbEq_fail _ _)
      · cases h; rfl
    · cases h
  | setEvent p t =>
    simp only [step, stepSetEvent] at h
    split at h
    · split at h
      · cases h; exact ofbb (bbEq_fail _ _)
      · split at h
        · cases h; exact ofbb (schedule_bbEq _ _ _)
        · cases h; exact ofbb (bbEq_emit _ _)
    · cases h
  | stepReply p r =>
    simp only [step, stepStepReply] at h
    split at h
    · cases hcur : (s.sims p).cur with
      | none => simp [hcur] at h
      | some c =>
        simp only [hcur, Option.some.injEq] at h
        subst h
        have h1 : BBEq s ((s.upd p fun y => { y with last := some c }).emit (.stepped p c)) :=
          (bbEq_upd s p (fun y => { y with last := some c }) (fun _ => rfl)).trans (bbEq_emit _ _)
        unfold processStepReply
        simp only
        cases r with
        | bad => exact ofbb (h1.trans (bbEq_fail _ _))
        | none =>
          simp only
          split
          · exact ofbb (h1.trans (bbEq_fail _ _))
          · exact ofbb (h1.trans (afterStep_bbEq cfg _ p c))
        | int n =>
          simp only
          split
          · exact ofbb (h1.trans (bbEq_fail _ _))
          · split
            · exact ofbb ((h1.trans (schedule_bbEq _ _ _)).trans (afterStep_bbEq cfg _ p c))
            · exact ofbb (h1.trans (afterStep_bbEq cfg _ p c))
    · cases h
  | dataReply p d =>
    simp only [step, stepDataReply] at h
    split at h
    · cases hcur : (s.sims p).cur with
      | none => simp [hcur] at h
      | some c =>
        simp only [hcur, Option.some.injEq] at h
        subst h
        have h1 : BBEq s ((s.upd p fun y => { y with outTime := (outTimeOf c d).2 }).emit (.got p c (outTimeOf c d).2 d.data)) :=
          (bbEq_upd s p (fun y => { y with outTime := (outTimeOf c d).2 }) (fun _ => rfl)).trans (bbEq_emit _ _)
        unfold processDataReply
        simp only
        split
        · exact ofbb (h1.trans (bbEq_fail _ _))
        · rename_i hot
          rw [ofbb (finish_bbEq cfg _ p c), storeOutputs_due cfg _ p _ d q T (hpush p d c rfl hcur hot)]
          exact ofbb h1
    · cases h
  | tick n =>
    simp only [step, stepTick] at h
    split at h
    · cases h
    · cases h; rfl

end Mosaik
