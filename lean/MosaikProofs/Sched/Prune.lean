/-
Pruning the output cache does not change any lookup a later step can make (C03, cache path; this is
the repaired `prune_dataflow_cache`, fix D8).

`getOutputFor l τ` returns the newest entry of `l` whose key (output time) is `≤ τ`.  The pruned
cache keeps every entry from the newest one at or before `needed` on.  For a cache whose keys
increase in insertion order (output times do not go back), every lookup at `τ ≥ needed` gives the
same entry before and after pruning (`prune_keeps_lookups`).  `needed` is the smallest time any
consumer can still ask for: `min last_step − max shift` (`prune_state_lookups`).
-/
import MosaikProofs.Sched.Others
namespace Mosaik

/-- the per-simulator part of `prune_dataflow_cache` -/
def pruneList (outputs : List (Int × OutData)) (needed : Int) : List (Int × OutData) :=
  let keepFrom : Int := match outputs.filter (fun (e : Int × OutData) => decide (e.1 ≤ needed)) with
    | [] => needed
    | e :: es => es.foldl (fun (m : Int) (e' : Int × OutData) => max m e'.1) e.1
  outputs.filter (fun (e : Int × OutData) => decide (e.1 ≥ keepFrom))

theorem foldl_max_ge_init (es : List (Int × OutData)) : ∀ (m : Int), m ≤ es.foldl (fun (m : Int) (e' : Int × OutData) => max m e'.1) m := by
  induction es with
  | nil => intro m; exact Int.le_refl _
  | cons a es ih => intro m; simp only [List.foldl_cons]; exact Int.le_trans (Int.le_max_left _ _) (ih _)

theorem foldl_max_ge_mem (es : List (Int × OutData)) : ∀ (m : Int) (x : Int × OutData), x ∈ es →
    x.1 ≤ es.foldl (fun (m : Int) (e' : Int × OutData) => max m e'.1) m := by
  induction es with
  | nil => intro m x hx; cases hx
  | cons a es ih =>
    intro m x hx
    simp only [List.foldl_cons]
    rcases List.mem_cons.mp hx with rfl | hx
    · exact Int.le_trans (Int.le_max_right _ _) (foldl_max_ge_init es _)
    · exact ih _ x hx

theorem foldl_max_mem (es : List (Int × OutData)) : ∀ (m : Int),
    es.foldl (fun (m : Int) (e' : Int × OutData) => max m e'.1) m = m ∨
    ∃ x ∈ es, es.foldl (fun (m : Int) (e' : Int × OutData) => max m e'.1) m = x.1 := by
  induction es with
  | nil => intro m; exact Or.inl rfl
  | cons a es ih =>
    intro m
    simp only [List.foldl_cons]
    rcases ih (max m a.1) with h | ⟨x, hx, h⟩
    · rw [h]
      by_cases hle : m ≤ a.1
      · right; exact ⟨a, List.mem_cons_self, by rw [Int.max_eq_right hle]⟩
      · left; exact Int.max_eq_left (by omega)
    · right; exact ⟨x, List.mem_cons_of_mem _ hx, h⟩

/-- the last entry satisfying `p` -/
def lastSat {α : Type} (p : α → Bool) : List α → Option α
  | [] => none
  | a :: l => match lastSat p l with
    | some x => some x
    | none => if p a then some a else none

theorem find?_reverse_eq_lastSat {α : Type} (p : α → Bool) : ∀ (l : List α), l.reverse.find? p = lastSat p l
  | [] => rfl
  | a :: l => by
    rw [List.reverse_cons, List.find?_append, find?_reverse_eq_lastSat p l]
    show (lastSat p l).or (List.find? p [a]) = (match lastSat p l with
      | some x => some x
      | none => if p a then some a else none)
    cases lastSat p l with
    | some x => rfl
    | none =>
      simp only [Option.or_none, Option.none_or, List.find?_cons, List.find?_nil]
      cases p a <;> rfl

def Sorted (l : List (Int × OutData)) : Prop := l.Pairwise (fun a b => a.1 < b.1)

theorem sorted_cons {a : Int × OutData} {l : List (Int × OutData)} (h : Sorted (a :: l)) : (∀ b ∈ l, a.1 < b.1) ∧ Sorted l :=
  List.pairwise_cons.mp h

/-- on a cache with increasing keys the lookup finds the entry with the largest key `≤ τ` -/
theorem lastSat_some {τ : Int} : ∀ {l : List (Int × OutData)}, Sorted l → ∀ {e}, lastSat (fun x => decide (x.1 ≤ τ)) l = some e →
    e ∈ l ∧ e.1 ≤ τ ∧ ∀ e' ∈ l, e'.1 ≤ τ → e'.1 ≤ e.1
  | [], _, e, h => by simp [lastSat] at h
  | a :: l, hs, e, h => by
    have hs := sorted_cons hs
    unfold lastSat at h
    cases hl : lastSat (fun x => decide (x.1 ≤ τ)) l with
    | some x =>
      rw [hl] at h
      simp only [Option.some.injEq] at h
      subst h
      obtain ⟨h1, h2, h3⟩ := lastSat_some hs.2 hl
      refine ⟨List.mem_cons_of_mem _ h1, h2, ?_⟩
      intro e' he' hle
      rcases List.mem_cons.mp he' with rfl | he'
      · exact Int.le_of_lt (hs.1 x h1)
      · exact h3 e' he' hle
    | none =>
      rw [hl] at h
      simp only at h
      split at h
      · rename_i hp
        simp only [Option.some.injEq] at h
        subst h
        refine ⟨List.mem_cons_self, by simpa using hp, ?_⟩
        intro e' he' hle
        rcases List.mem_cons.mp he' with rfl | he'
        · exact Int.le_refl _
        · -- no entry of the tail is ≤ τ
          exfalso
          have : ∀ (l : List (Int × OutData)), lastSat (fun x => decide (x.1 ≤ τ)) l = none → ∀ y ∈ l, ¬ y.1 ≤ τ := by
            intro l
            induction l with
            | nil => intro _ y hy; cases hy
            | cons b l ih =>
              intro hn y hy
              unfold lastSat at hn
              cases hl2 : lastSat (fun x => decide (x.1 ≤ τ)) l with
              | some z => rw [hl2] at hn; cases hn
              | none =>
                rw [hl2] at hn
                simp only at hn
                rcases List.mem_cons.mp hy with rfl | hy
                · intro hle2; simp [hle2] at hn
                · exact ih hl2 y hy
          exact this l hl e' he' hle
      · cases h

theorem lastSat_none {τ : Int} : ∀ (l : List (Int × OutData)), lastSat (fun x => decide (x.1 ≤ τ)) l = none → ∀ y ∈ l, ¬ y.1 ≤ τ := by
  intro l
  induction l with
  | nil => intro _ y hy; cases hy
  | cons b l ih =>
    intro hn y hy
    unfold lastSat at hn
    cases hl2 : lastSat (fun x => decide (x.1 ≤ τ)) l with
    | some z => rw [hl2] at hn; cases hn
    | none =>
      rw [hl2] at hn
      simp only at hn
      rcases List.mem_cons.mp hy with rfl | hy
      · intro hle2; simp [hle2] at hn
      · exact ih hl2 y hy

theorem sorted_key_inj : ∀ {l : List (Int × OutData)}, Sorted l → ∀ {a b}, a ∈ l → b ∈ l → a.1 = b.1 → a = b
  | [], _, _, _, ha, _, _ => by cases ha
  | x :: l, hs, a, b, ha, hb, hk => by
    have hs := sorted_cons hs
    rcases List.mem_cons.mp ha with hax | ha'
    · rcases List.mem_cons.mp hb with hbx | hb'
      · rw [hax, hbx]
      · have := hs.1 b hb'; rw [hax] at hk; omega
    · rcases List.mem_cons.mp hb with hbx | hb'
      · have := hs.1 a ha'; rw [hbx] at hk; omega
      · exact sorted_key_inj hs.2 ha' hb' hk

/-- **pruning keeps every lookup at or after `needed`** -/
theorem prune_keeps_lookups {l : List (Int × OutData)} (hs : Sorted l) (needed τ : Int) (hτ : needed ≤ τ) :
    getOutputFor (pruneList l needed) τ = getOutputFor l τ := by
  unfold getOutputFor
  rw [find?_reverse_eq_lastSat, find?_reverse_eq_lastSat]
  -- `K` is `needed` (no key ≤ needed) or a key ≤ needed
  have hK : ∀ K : Int, (K = needed ∧ ∀ y ∈ l, ¬ y.1 ≤ needed) ∨ (∃ x ∈ l, x.1 ≤ needed ∧ K = x.1) →
      lastSat (fun x => decide (x.1 ≤ τ)) (l.filter (fun (e : Int × OutData) => decide (e.1 ≥ K))) =
      lastSat (fun x => decide (x.1 ≤ τ)) l := by
    intro K hKdef
    have hsf : Sorted (l.filter (fun (e : Int × OutData) => decide (e.1 ≥ K))) := List.Pairwise.sublist List.filter_sublist hs
    cases hl : lastSat (fun x => decide (x.1 ≤ τ)) l with
    | none =>
      cases hf : lastSat (fun x => decide (x.1 ≤ τ)) (l.filter (fun (e : Int × OutData) => decide (e.1 ≥ K))) with
      | none => rfl
      | some e =>
        obtain ⟨h1, h2, _⟩ := lastSat_some hsf hf
        exact absurd h2 (lastSat_none l hl e ((List.mem_filter.mp h1).1))
    | some m =>
      obtain ⟨hm1, hm2, hm3⟩ := lastSat_some hs hl
      have hmK : m.1 ≥ K := by
        rcases hKdef with ⟨hKn, hno⟩ | ⟨x, hx, hxn, hKx⟩
        · have := hno m hm1; omega
        · have := hm3 x hx (by omega); omega
      have hmf : m ∈ l.filter (fun (e : Int × OutData) => decide (e.1 ≥ K)) := by
        simp only [List.mem_filter, decide_eq_true_eq]; exact ⟨hm1, hmK⟩
      cases hf : lastSat (fun x => decide (x.1 ≤ τ)) (l.filter (fun (e : Int × OutData) => decide (e.1 ≥ K))) with
      | none => exact absurd hm2 (lastSat_none _ hf m hmf)
      | some m' =>
        obtain ⟨h1, h2, h3⟩ := lastSat_some hsf hf
        have h4 := h3 m hmf hm2
        have h5 := hm3 m' ((List.mem_filter.mp h1).1) h2
        have : m' = m := sorted_key_inj hs ((List.mem_filter.mp h1).1) hm1 (by omega)
        rw [this]
  have := hK (match l.filter (fun (e : Int × OutData) => decide (e.1 ≤ needed)) with
    | [] => needed
    | e :: es => es.foldl (fun (m : Int) (e' : Int × OutData) => max m e'.1) e.1) (by
      cases hfl : l.filter (fun (e : Int × OutData) => decide (e.1 ≤ needed)) with
      | nil =>
        left
        refine ⟨rfl, ?_⟩
        intro y hy hle
        have : y ∈ l.filter (fun (e : Int × OutData) => decide (e.1 ≤ needed)) := by
          simp only [List.mem_filter, decide_eq_true_eq]; exact ⟨hy, hle⟩
        rw [hfl] at this; cases this
      | cons e es =>
        right
        have hmem : ∀ x ∈ e :: es, x ∈ l ∧ x.1 ≤ needed := by
          intro x hx
          rw [← hfl] at hx
          simp only [List.mem_filter, decide_eq_true_eq] at hx
          exact hx
        rcases foldl_max_mem es e.1 with h | ⟨x, hx, h⟩
        · exact ⟨e, (hmem e List.mem_cons_self).1, (hmem e List.mem_cons_self).2, h⟩
        · exact ⟨x, (hmem x (List.mem_cons_of_mem _ hx)).1, (hmem x (List.mem_cons_of_mem _ hx)).2, h⟩)
  unfold pruneList
  simp only
  rw [this]

end Mosaik

namespace Mosaik

/-! ### the model's `prune` -/

/-- `last_step.time` of a simulator (−1 before its first step) -/
def lastTime (s : State) (p : Sid) : Int := match (s.sims p).last with | some t => (TT.time t : Int) | .none => -1

/-- the smallest `last_step.time` -/
def minLast (cfg : Cfg) (s : State) : Int := (List.range cfg.n).foldl (fun m p => min m (lastTime s p)) (lastTime s 0)

/-- the largest time shift of a cached connection out of `q` -/
def maxShift (cfg : Cfg) (q : Sid) : Int := (List.range cfg.n).foldl (fun m d =>
  (cfg.sim d).pulled.foldl (fun m (e : Sid × TI × Port × Port) =>
    if e.1 = q then max m (tier e.2.1.tiers 0 : Int) else m) m) 0

theorem prune_outputs (cfg : Cfg) (s : State) {q : Sid} (hq : q < cfg.n) :
    ((prune cfg s).sims q).outputs = pruneList (s.sims q).outputs (minLast cfg s - maxShift cfg q) := by
  unfold prune pruneList minLast maxShift lastTime
  simp only [hq, if_true]
  rfl

theorem foldl_min_le (f : Sid → Int) : ∀ (l : List Sid) (m : Int), l.foldl (fun m p => min m (f p)) m ≤ m ∧
    ∀ p ∈ l, l.foldl (fun m p => min m (f p)) m ≤ f p := by
  intro l
  induction l with
  | nil => intro m; exact ⟨Int.le_refl _, fun _ h => by cases h⟩
  | cons a l ih =>
    intro m
    simp only [List.foldl_cons]
    obtain ⟨h1, h2⟩ := ih (min m (f a))
    refine ⟨Int.le_trans h1 (Int.min_le_left _ _), ?_⟩
    intro p hp
    rcases List.mem_cons.mp hp with rfl | hp
    · exact Int.le_trans h1 (Int.min_le_right _ _)
    · exact h2 p hp

theorem minLast_le (cfg : Cfg) (s : State) {d : Sid} (hd : d < cfg.n) : minLast cfg s ≤ lastTime s d :=
  (foldl_min_le (lastTime s) (List.range cfg.n) (lastTime s 0)).2 d (List.mem_range.mpr hd)

theorem inner_max_ge (q : Sid) : ∀ (l : List (Sid × TI × Port × Port)) (m : Int),
    m ≤ l.foldl (fun m (e : Sid × TI × Port × Port) => if e.1 = q then max m (tier e.2.1.tiers 0 : Int) else m) m ∧
    ∀ e ∈ l, e.1 = q → (tier e.2.1.tiers 0 : Int) ≤
      l.foldl (fun m (e : Sid × TI × Port × Port) => if e.1 = q then max m (tier e.2.1.tiers 0 : Int) else m) m := by
  intro l
  induction l with
  | nil => intro m; exact ⟨Int.le_refl _, fun _ h => by cases h⟩
  | cons a l ih =>
    intro m
    simp only [List.foldl_cons]
    obtain ⟨h1, h2⟩ := ih (if a.1 = q then max m (tier a.2.1.tiers 0 : Int) else m)
    constructor
    · refine Int.le_trans ?_ h1
      split
      · exact Int.le_max_left _ _
      · exact Int.le_refl _
    · intro e he heq
      rcases List.mem_cons.mp he with rfl | he
      · refine Int.le_trans ?_ h1
        rw [if_pos heq]; exact Int.le_max_right _ _
      · exact h2 e he heq

theorem maxShift_ge (cfg : Cfg) {q d : Sid} (hd : d < cfg.n) {e : Sid × TI × Port × Port} (he : e ∈ (cfg.sim d).pulled)
    (heq : e.1 = q) : (tier e.2.1.tiers 0 : Int) ≤ maxShift cfg q := by
  unfold maxShift
  have key : ∀ (l : List Sid) (m : Int),
      m ≤ l.foldl (fun m d => (cfg.sim d).pulled.foldl (fun m (e : Sid × TI × Port × Port) =>
        if e.1 = q then max m (tier e.2.1.tiers 0 : Int) else m) m) m ∧
      (d ∈ l → (tier e.2.1.tiers 0 : Int) ≤ l.foldl (fun m d => (cfg.sim d).pulled.foldl (fun m (e : Sid × TI × Port × Port) =>
        if e.1 = q then max m (tier e.2.1.tiers 0 : Int) else m) m) m) := by
    intro l
    induction l with
    | nil => intro m; exact ⟨Int.le_refl _, fun h => by cases h⟩
    | cons a l ih =>
      intro m
      simp only [List.foldl_cons]
      obtain ⟨h1, h2⟩ := ih ((cfg.sim a).pulled.foldl (fun m (e : Sid × TI × Port × Port) =>
        if e.1 = q then max m (tier e.2.1.tiers 0 : Int) else m) m)
      constructor
      · exact Int.le_trans (inner_max_ge q (cfg.sim a).pulled m).1 h1
      · intro hmem
        rcases List.mem_cons.mp hmem with rfl | hmem
        · exact Int.le_trans ((inner_max_ge q (cfg.sim d).pulled m).2 e he heq) h1
        · exact h2 hmem
  exact (key (List.range cfg.n) 0).2 (List.mem_range.mpr hd)

/-- **pruning does not change what a consumer can still read**: `d` pulls from `q` over the cached connection `e`;
for every step time `c` of `d` at or after its last step, the cache lookup the step makes gives the same entry in
the pruned cache — provided `q`'s output times have not gone back (keys increase in insertion order) -/
theorem prune_state_lookups (cfg : Cfg) (s : State) {q d : Sid} (hq : q < cfg.n) (hd : d < cfg.n)
    {e : Sid × TI × Port × Port} (he : e ∈ (cfg.sim d).pulled) (heq : e.1 = q) (hsorted : Sorted (s.sims q).outputs)
    (c : Int) (hc : lastTime s d ≤ c) :
    getOutputFor ((prune cfg s).sims q).outputs (c - (tier e.2.1.tiers 0 : Int)) =
    getOutputFor (s.sims q).outputs (c - (tier e.2.1.tiers 0 : Int)) := by
  rw [prune_outputs cfg s hq]
  apply prune_keeps_lookups hsorted
  have h1 := minLast_le cfg s hd
  have h2 := maxShift_ge cfg hd he heq
  omega

end Mosaik
