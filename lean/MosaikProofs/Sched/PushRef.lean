/-
Refinement of the push path to the output history (C03, pushed connections — all connections when `cache=False`).

For one pushed connection `pe` from `src` to `q` (key `k`), `pushHist` is the list of values `src` has produced on the
connection's source port, with their due times (output time + shift), oldest first, read off the run's log.

`reachP_pushRef`: in every reachable state of a flat configuration
* the values of that connection waiting in `q`'s timed input buffer are exactly the produced values that were not yet
  due at `q`'s last step, in production order — nothing lost, nothing duplicated, nothing invented (`PushRef.buf`)
* for a persistent connection the remembered value is the last produced value that was due at `q`'s last step, or the
  declared initial value (`PushRef.pers`)
Consequently the step request of `q` for time `c` carries the last produced value due at or before `c`
(`begin_push_refines_spec`).

Hypotheses: the scheduler hypotheses of `no_late_arrival` (flat configuration); the key of the connection is used by no
other connection into `q` (`KeyOnce`); reported output times do not go back (`MonoActP`, the complement of the known
finding about non-monotone output times).
-/
import MosaikProofs.Sched.CacheRef
import MosaikProofs.Lemmas.Data
namespace Mosaik

/-! ### one connection's view of a buffer -/

/-- the (due time, value) pairs of the entries with key `k`, in buffer order -/
def keyView (k : InKey) (buf : List BufEntry) : List (Nat × Val) :=
  (buf.filter (fun b => b.key == k)).map (fun b => (b.time, b.val))

theorem keyView_cons (k : InKey) (b : BufEntry) (l : List BufEntry) :
    keyView k (b :: l) = if b.key == k then (b.time, b.val) :: keyView k l else keyView k l := by
  unfold keyView
  simp only [List.filter_cons]
  split <;> simp

theorem keyView_insert_other (k : InKey) (e : BufEntry) (h : e.key ≠ k) : ∀ l : List BufEntry, keyView k (insertBuf e l) = keyView k l
  | [] => by simp [insertBuf, keyView, h]
  | y :: ys => by
    unfold insertBuf
    have he : (e.key == k) = false := by simp [h]
    split
    · rw [keyView_cons, he]; simp
    · rw [keyView_cons, keyView_cons, keyView_insert_other k e h ys]

/-- the buffer is in due-time order -/
def BufSorted (l : List BufEntry) : Prop := l.Pairwise (fun a b => a.time ≤ b.time)

theorem bufSorted_insert (e : BufEntry) : ∀ l : List BufEntry, BufSorted l → BufSorted (insertBuf e l)
  | [], _ => by simp [insertBuf, BufSorted]
  | y :: ys, hs => by
    unfold BufSorted at hs
    have hy := (List.pairwise_cons.mp hs).1
    have hys := (List.pairwise_cons.mp hs).2
    unfold insertBuf
    split
    · rename_i hlt
      unfold BufSorted
      refine List.pairwise_cons.mpr ⟨?_, hs⟩
      intro x hx
      rcases List.mem_cons.mp hx with rfl | hx
      · omega
      · have := hy x hx; omega
    · rename_i hlt
      unfold BufSorted
      refine List.pairwise_cons.mpr ⟨?_, bufSorted_insert e ys hys⟩
      intro x hx
      rcases (mem_insertBuf e ys x).mp hx with rfl | hx
      · omega
      · exact hy x hx

theorem keyView_nil_of_no_key (k : InKey) : ∀ l : List BufEntry, (∀ x ∈ l, x.key ≠ k) → keyView k l = []
  | [], _ => rfl
  | y :: ys, h => by
    rw [keyView_cons]
    have : (y.key == k) = false := by simp [h y List.mem_cons_self]
    rw [this]
    exact keyView_nil_of_no_key k ys (fun x hx => h x (List.mem_cons_of_mem _ hx))

/-- an entry that is not earlier than any entry of its key, and newer by counter than everything, goes behind all
entries of its key -/
theorem keyView_insert_same (k : InKey) (e : BufEntry) (h : e.key = k) : ∀ l : List BufEntry, BufSorted l →
    (∀ x ∈ l, x.key = k → x.time ≤ e.time) → (∀ x ∈ l, x.ctr < e.ctr) →
    keyView k (insertBuf e l) = keyView k l ++ [(e.time, e.val)]
  | [], _, _, _ => by simp [insertBuf, keyView, h]
  | y :: ys, hs, ht, hc => by
    unfold BufSorted at hs
    have hy := (List.pairwise_cons.mp hs).1
    have hys := (List.pairwise_cons.mp hs).2
    have he : (e.key == k) = true := by simp [h]
    unfold insertBuf
    split
    · rename_i hlt
      have hcy := hc y List.mem_cons_self
      have hlt' : e.time < y.time := by omega
      -- everything in the buffer is due after `e`, so nothing in it has key `k`
      have hnone : ∀ x ∈ y :: ys, x.key ≠ k := by
        intro x hx hk
        have h1 := ht x hx hk
        rcases List.mem_cons.mp hx with rfl | hx'
        · omega
        · have := hy x hx'; omega
      rw [keyView_cons, he, keyView_nil_of_no_key k _ hnone]
      simp
    · rw [keyView_cons, keyView_cons]
      have ih := keyView_insert_same k e h ys hys (fun x hx => ht x (List.mem_cons_of_mem _ hx))
        (fun x hx => hc x (List.mem_cons_of_mem _ hx))
      rw [ih]
      split <;> simp

theorem keyView_filter (k : InKey) (f : BufEntry → Bool) (g : Nat × Val → Bool) (hfg : ∀ b : BufEntry, f b = g (b.time, b.val)) :
    ∀ l : List BufEntry, keyView k (l.filter f) = (keyView k l).filter g
  | [] => rfl
  | b :: l => by
    have ih := keyView_filter k f g hfg l
    by_cases hf : f b = true
    · rw [List.filter_cons_of_pos hf, keyView_cons, keyView_cons]
      by_cases hk : (b.key == k) = true
      · have hg : g (b.time, b.val) = true := by rw [← hfg]; exact hf
        rw [if_pos hk, if_pos hk, List.filter_cons_of_pos hg, ih]
      · rw [if_neg hk, if_neg hk, ih]
    · rw [List.filter_cons_of_neg hf, keyView_cons]
      by_cases hk : (b.key == k) = true
      · have hg : ¬ g (b.time, b.val) = true := by rw [← hfg]; exact hf
        rw [if_pos hk, List.filter_cons_of_neg hg, ih]
      · rw [if_neg hk, ih]

theorem mem_keyView {k : InKey} {l : List BufEntry} {x : BufEntry} (hx : x ∈ l) (hk : x.key = k) : (x.time, x.val) ∈ keyView k l := by
  unfold keyView
  rw [List.mem_map]
  exact ⟨x, List.mem_filter.mpr ⟨hx, by simp [hk]⟩, rfl⟩

/-! ### the produced values of one connection, read off the log -/

/-- values `src` produced on `sport` with their due times over a connection of shift `sh`, oldest first -/
def pushHist (src : Sid) (sport : Port) (sh : Nat) : List Event → List (Nat × Val)
  | [] => []
  | .got p _ outTT data :: l =>
    if p = src then
      match OutData.get? data sport with
      | some v => pushHist src sport sh l ++ [(TT.time outTT + sh, v)]
      | none => pushHist src sport sh l
    else pushHist src sport sh l
  | .begin .. :: l => pushHist src sport sh l
  | .stepped .. :: l => pushHist src sport sh l
  | .finished .. :: l => pushHist src sport sh l
  | .done .. :: l => pushHist src sport sh l
  | .rtWarn .. :: l => pushHist src sport sh l
  | .eventIgnored .. :: l => pushHist src sport sh l

/-- the output times `p` has reported so far -/
def gotTimes (p : Sid) : List Event → List Nat
  | [] => []
  | .got p' _ outTT _ :: l => if p' = p then TT.time outTT :: gotTimes p l else gotTimes p l
  | .begin .. :: l => gotTimes p l
  | .stepped .. :: l => gotTimes p l
  | .finished .. :: l => gotTimes p l
  | .done .. :: l => gotTimes p l
  | .rtWarn .. :: l => gotTimes p l
  | .eventIgnored .. :: l => gotTimes p l

theorem pushHist_cons_noGot (src : Sid) (sport : Port) (sh : Nat) (e : Event) (l : List Event) (h : e.isGot = false) :
    pushHist src sport sh (e :: l) = pushHist src sport sh l := by
  cases e <;> first | rfl | (simp [Event.isGot] at h)

theorem gotTimes_cons_noGot (p : Sid) (e : Event) (l : List Event) (h : e.isGot = false) : gotTimes p (e :: l) = gotTimes p l := by
  cases e <;> first | rfl | (simp [Event.isGot] at h)

theorem LogExt.pushHist {s s' : State} (h : LogExt s s') (src : Sid) (sport : Port) (sh : Nat) :
    Mosaik.pushHist src sport sh s'.log = Mosaik.pushHist src sport sh s.log := by
  obtain ⟨pre, he, hn⟩ := h
  rw [he]
  clear he
  induction pre with
  | nil => rfl
  | cons e pre ih =>
    rw [List.cons_append, pushHist_cons_noGot src sport sh e _ (hn e List.mem_cons_self)]
    exact ih (fun e' he' => hn e' (List.mem_cons_of_mem _ he'))

theorem LogExt.gotTimes {s s' : State} (h : LogExt s s') (p : Sid) : Mosaik.gotTimes p s'.log = Mosaik.gotTimes p s.log := by
  obtain ⟨pre, he, hn⟩ := h
  rw [he]
  clear he
  induction pre with
  | nil => rfl
  | cons e pre ih =>
    rw [List.cons_append, gotTimes_cons_noGot p e _ (hn e List.mem_cons_self)]
    exact ih (fun e' he' => hn e' (List.mem_cons_of_mem _ he'))

/-- every due time in the history is a reported output time plus the shift -/
theorem pushHist_due (src : Sid) (sport : Port) (sh : Nat) : ∀ (log : List Event) (x : Nat × Val), x ∈ pushHist src sport sh log →
    ∃ t ∈ gotTimes src log, x.1 = t + sh
  | [], x, h => by simp [pushHist] at h
  | e :: l, x, h => by
    cases e with
    | got p c outTT data =>
      simp only [pushHist, gotTimes] at h ⊢
      by_cases hp : p = src
      · simp only [hp, if_true] at h ⊢
        cases hg : OutData.get? data sport with
        | none =>
          rw [hg] at h
          obtain ⟨t, ht, hx⟩ := pushHist_due src sport sh l x h
          exact ⟨t, List.mem_cons_of_mem _ ht, hx⟩
        | some v =>
          rw [hg] at h
          rcases List.mem_append.mp h with h | h
          · obtain ⟨t, ht, hx⟩ := pushHist_due src sport sh l x h
            exact ⟨t, List.mem_cons_of_mem _ ht, hx⟩
          · simp only [List.mem_singleton] at h
            exact ⟨TT.time outTT, List.mem_cons_self, by rw [h]⟩
      · simp only [hp, if_false] at h ⊢
        exact pushHist_due src sport sh l x h
    | begin => exact pushHist_due src sport sh l x h
    | stepped => exact pushHist_due src sport sh l x h
    | finished => exact pushHist_due src sport sh l x h
    | done => exact pushHist_due src sport sh l x h
    | rtWarn => exact pushHist_due src sport sh l x h
    | eventIgnored => exact pushHist_due src sport sh l x h

/-- the last value of a history, a default if it is empty -/
def lastVal (l : List (Nat × Val)) (d : Val) : Val :=
  match l.getLast? with
  | some x => x.2
  | none => d

theorem lastVal_append_single (l : List (Nat × Val)) (x : Nat × Val) (d : Val) : lastVal (l ++ [x]) d = x.2 := by
  simp [lastVal]

theorem lastVal_nil (d : Val) : lastVal [] d = d := rfl

/-! ### `get_outputs` pushing into one destination, seen through one key -/

/-- the body of the push loop of `get_outputs` -/
def pushOne (p : Sid) (ot : Int) (d : DataReply) (st : State) (e : Port × Sid × TI × Port) : State :=
  match OutData.get? d.data e.1 with
  | .none => st
  | some v => st.upd e.2.1 fun y =>
      { y with buffer := insertBuf { time := ot.toNat + tier e.2.2.1.tiers 0, ctr := y.ctr,
                                     key := { eid := e.2.2.2.1, attr := e.2.2.2.2, ssid := p, seid := e.1.1 }, val := v } y.buffer,
               ctr := y.ctr + 1 }

theorem storeOutputs_eq (cfg : Cfg) (s1 : State) (p : Sid) (ot : Int) (d : DataReply) :
    storeOutputs cfg s1 p ot d =
      ((cfg.sim p).push.foldl (pushOne p ot d) (if cfg.useCache then s1.upd p fun x =>
        { x with outputs := if x.outputs.any (·.1 == ot) then x.outputs.map (fun e => if e.1 == ot then (ot, d.data) else e)
                            else x.outputs ++ [(ot, d.data)] } else s1)).upd p fun x => { x with data := d.data } := rfl

/-- the input key a pushed connection of `p` writes -/
def keyOf (p : Sid) (e : Port × Sid × TI × Port) : InKey := { eid := e.2.2.2.1, attr := e.2.2.2.2, ssid := p, seid := e.1.1 }

/-- the connection goes to `q` and writes key `k` -/
def hits (q : Sid) (k : InKey) (p : Sid) (e : Port × Sid × TI × Port) : Bool := e.2.1 == q && keyOf p e == k

def entryOf (ot : Int) (d : DataReply) (e : Port × Sid × TI × Port) : List (Nat × Val) :=
  match OutData.get? d.data e.1 with
  | some v => [(ot.toNat + tier e.2.2.1.tiers 0, v)]
  | .none => []

/-- buffer in due order, counters below the simulator's counter -/
def QOk (st : State) (q : Sid) : Prop :=
  BufSorted (st.sims q).buffer ∧ ∀ x ∈ (st.sims q).buffer, x.ctr < (st.sims q).ctr

theorem pushFold_q (q : Sid) (k : InKey) (p : Sid) (ot : Int) (d : DataReply) :
    ∀ (l : List (Port × Sid × TI × Port)) (st : State), (l.filter (hits q k p)).length ≤ 1 → QOk st q →
      (∀ e ∈ l, hits q k p e = true → ∀ x ∈ (st.sims q).buffer, x.key = k → x.time ≤ ot.toNat + tier e.2.2.1.tiers 0) →
      QOk (l.foldl (pushOne p ot d) st) q ∧
      keyView k ((l.foldl (pushOne p ot d) st).sims q).buffer = keyView k (st.sims q).buffer ++ (l.filter (hits q k p)).flatMap (entryOf ot d) ∧
      ((l.foldl (pushOne p ot d) st).sims q).persistent = (st.sims q).persistent ∧
      ((l.foldl (pushOne p ot d) st).sims q).begun = (st.sims q).begun
  | [], st, _, hok, _ => by simp [hok]
  | e :: l, st, hlen, hok, hmono => by
    simp only [List.foldl_cons]
    -- the state after this connection
    by_cases hq : e.2.1 = q
    · cases hg : OutData.get? d.data e.1 with
      | none =>
        have hst : pushOne p ot d st e = st := by simp [pushOne, hg]
        rw [hst]
        have hlen' : (l.filter (hits q k p)).length ≤ 1 := by
          rw [List.filter_cons] at hlen
          split at hlen
          · simp only [List.length_cons] at hlen; omega
          · exact hlen
        obtain ⟨h1, h2, h3, h4⟩ := pushFold_q q k p ot d l st hlen' hok (fun e' he' => hmono e' (List.mem_cons_of_mem _ he'))
        refine ⟨h1, ?_, h3, h4⟩
        rw [h2, List.filter_cons]
        split
        · simp [entryOf, hg]
        · rfl
      | some v =>
        have hbuf : ((pushOne p ot d st e).sims q).buffer =
            insertBuf { time := ot.toNat + tier e.2.2.1.tiers 0, ctr := (st.sims q).ctr, key := keyOf p e, val := v } (st.sims q).buffer := by
          simp [pushOne, hg, hq, keyOf]
        have hctr : ((pushOne p ot d st e).sims q).ctr = (st.sims q).ctr + 1 := by simp [pushOne, hg, hq]
        have hpers : ((pushOne p ot d st e).sims q).persistent = (st.sims q).persistent := by simp [pushOne, hg, hq]
        have hbeg : ((pushOne p ot d st e).sims q).begun = (st.sims q).begun := by simp [pushOne, hg, hq]
        have hok' : QOk (pushOne p ot d st e) q := by
          refine ⟨by rw [hbuf]; exact bufSorted_insert _ _ hok.1, ?_⟩
          intro x hx
          rw [hbuf] at hx
          rw [hctr]
          rcases (mem_insertBuf _ _ x).mp hx with rfl | hx
          · simp
          · have := hok.2 x hx; omega
        by_cases hk : keyOf p e = k
        · -- the one connection that writes `k`
          have hhit : hits q k p e = true := by simp [hits, hq, hk]
          have hrest : l.filter (hits q k p) = [] := by
            rw [List.filter_cons, if_pos hhit] at hlen
            simp only [List.length_cons] at hlen
            exact List.eq_nil_of_length_eq_zero (by omega)
          obtain ⟨h1, h2, h3, h4⟩ := pushFold_q q k p ot d l (pushOne p ot d st e) (by rw [hrest]; simp) hok' (by
            intro e' he' hh
            have : e' ∈ l.filter (hits q k p) := List.mem_filter.mpr ⟨he', hh⟩
            rw [hrest] at this
            cases this)
          refine ⟨h1, ?_, by rw [h3, hpers], by rw [h4, hbeg]⟩
          rw [h2, hbuf, List.filter_cons, if_pos hhit, hrest]
          have hins := keyView_insert_same k { time := ot.toNat + tier e.2.2.1.tiers 0, ctr := (st.sims q).ctr, key := keyOf p e, val := v } hk
            (st.sims q).buffer hok.1 (fun x hx hxk => hmono e List.mem_cons_self hhit x hx hxk) (fun x hx => hok.2 x hx)
          rw [hins]
          simp [entryOf, hg]
        · have hhit : hits q k p e = false := by simp [hits, hk]
          have hlen' : (l.filter (hits q k p)).length ≤ 1 := by
            rw [List.filter_cons, hhit] at hlen; simpa using hlen
          obtain ⟨h1, h2, h3, h4⟩ := pushFold_q q k p ot d l (pushOne p ot d st e) hlen' hok' (by
            intro e' he' hh x hx hxk
            rw [hbuf] at hx
            rcases (mem_insertBuf _ _ x).mp hx with rfl | hx
            · exact absurd hxk hk
            · exact hmono e' (List.mem_cons_of_mem _ he') hh x hx hxk)
          refine ⟨h1, ?_, by rw [h3, hpers], by rw [h4, hbeg]⟩
          rw [h2, hbuf, keyView_insert_other k _ hk, List.filter_cons, hhit]
          simp
    · -- another destination
      have hsim : (pushOne p ot d st e).sims q = st.sims q := by
        unfold pushOne
        split
        · rfl
        · exact State.upd_other _ _ (fun h => hq h.symm)
      have hhit : hits q k p e = false := by simp [hits, hq]
      have hlen' : (l.filter (hits q k p)).length ≤ 1 := by
        rw [List.filter_cons, hhit] at hlen; simpa using hlen
      obtain ⟨h1, h2, h3, h4⟩ := pushFold_q q k p ot d l (pushOne p ot d st e) hlen' (by unfold QOk; rw [hsim]; exact hok) (by
        intro e' he' hh x hx hxk
        rw [hsim] at hx
        exact hmono e' (List.mem_cons_of_mem _ he') hh x hx hxk)
      refine ⟨h1, ?_, by rw [h3, hsim], by rw [h4, hsim]⟩
      rw [h2, hsim, List.filter_cons, hhit]
      simp

/-! ### blocks that leave buffers, counters, remembered values, begun steps and `set_data` inputs alone -/

def SimSt.pf (x : SimSt) : List BufEntry × Nat × InputData × List TT × InputData := (x.buffer, x.ctr, x.persistent, x.begun, x.setData)

/-- no simulator's data-flow fields change and the log grows by non-`get_data` events only -/
structure PFEq (s s' : State) : Prop where
  pf : ∀ q, (s'.sims q).pf = (s.sims q).pf
  log : LogExt s s'

theorem PFEq.refl (s : State) : PFEq s s := ⟨fun _ => rfl, LogExt.refl s⟩
theorem PFEq.trans {s s' s'' : State} (h1 : PFEq s s') (h2 : PFEq s' s'') : PFEq s s'' :=
  ⟨fun q => (h2.pf q).trans (h1.pf q), h1.log.trans h2.log⟩
theorem pfEq_upd (s : State) (p : Sid) (f : SimSt → SimSt) (hf : ∀ x, (f x).pf = x.pf) : PFEq s (s.upd p f) :=
  ⟨fun q => by rw [State.upd_sims]; split; exact hf _; rfl, logExt_upd s p f⟩
theorem pfEq_emit (s : State) (e : Event) (h : e.isGot = false) : PFEq s (s.emit e) := ⟨fun _ => rfl, logExt_emit s e h⟩
theorem pfEq_fail (s : State) (e : SchedErr) : PFEq s (s.fail e) := ⟨fun q => by rw [State.fail_sims], logExt_fail s e⟩

theorem advance_pfEq (cfg : Cfg) (s : State) (q : Sid) : PFEq s (advance cfg s q) := by
  unfold advance; simp only
  split
  · exact pfEq_fail _ _
  · exact pfEq_upd _ _ _ (fun _ => rfl)

theorem advanceAll_pfEq (cfg : Cfg) (s : State) : PFEq s (advanceAll cfg s) := by
  unfold advanceAll
  apply foldl_inv (fun st => PFEq s st)
  · exact PFEq.refl s
  · intro st p _ h; split
    · exact h
    · exact h.trans (advance_pfEq cfg st p)

theorem settle_pfEq (cfg : Cfg) (s : State) (p : Sid) : PFEq s (settle cfg s p) := by
  unfold settle; simp only
  split
  · refine PFEq.trans ?_ (pfEq_emit _ _ rfl)
    exact pfEq_upd _ _ _ (fun _ => rfl)
  · split
    · split
      · exact pfEq_upd _ _ _ (fun _ => rfl)
      · exact pfEq_upd _ _ _ (fun _ => rfl)
    · exact pfEq_upd _ _ _ (fun _ => rfl)

theorem schedule_pfEq (s : State) (q : Sid) (t : TT) : PFEq s (schedule s q t) := by
  unfold schedule; simp only
  split
  · exact PFEq.refl s
  · exact pfEq_upd _ _ _ (fun _ => rfl)

theorem notify_pfEq (cfg : Cfg) (s : State) (p : Sid) : PFEq s (notify cfg s p) := by
  unfold notify
  apply foldl_inv (fun st => PFEq s st)
  · exact PFEq.refl s
  · intro st tr _ h; split
    · exact h.trans (schedule_pfEq _ _ _)
    · exact h

theorem prune_pfEq (cfg : Cfg) (s : State) : PFEq s (prune cfg s) :=
  ⟨fun q => by unfold prune; simp only; split <;> rfl, prune_logExt cfg s⟩

theorem clearCur_pfEq (s : State) (p : Sid) (c : TT) : PFEq s (clearCur s p c) := by
  unfold clearCur
  refine PFEq.trans ?_ (pfEq_emit _ _ rfl)
  exact pfEq_upd _ _ _ (fun _ => rfl)

theorem rtCheck_pfEq (cfg : Cfg) (s : State) (p : Sid) (c : TT) : PFEq s (rtCheck cfg s p c) :=
  ⟨fun q => by rw [rtCheck_sims], rtCheck_logExt cfg s p c⟩

theorem finish_pfEq (cfg : Cfg) (s : State) (p : Sid) (c : TT) : PFEq s (finish cfg s p c) := by
  have h3 : PFEq s (advanceAll cfg (notify cfg (clearCur s p c) p)) :=
    ((clearCur_pfEq s p c).trans (notify_pfEq cfg _ p)).trans (advanceAll_pfEq cfg _)
  unfold finish; simp only
  split
  · exact h3
  · split
    · exact (h3.trans (prune_pfEq cfg _)).trans (settle_pfEq cfg _ p)
    · exact h3.trans (settle_pfEq cfg _ p)

theorem afterStep_pfEq (cfg : Cfg) (s : State) (p : Sid) (c : TT) : PFEq s (afterStep cfg s p c) := by
  have h3 := rtCheck_pfEq cfg s p c
  unfold afterStep; simp only
  split
  · exact h3
  · split
    · exact h3.trans (finish_pfEq cfg _ p c)
    · exact h3.trans (pfEq_upd _ _ _ (fun _ => rfl))

/-! ### the invariant of one pushed connection `pe` from `src` to `q` -/

/-- `due` lies after the last step begun (`T = none`: no step yet) -/
def after (T : Option Nat) (due : Nat) : Bool :=
  match T with
  | none => true
  | some t => decide (t < due)

def lastBegun (x : SimSt) : Option Nat := x.begun.head?.map TT.time

def csh (pe : Port × Sid × TI × Port) : Nat := tier pe.2.2.1.tiers 0
def chist (src : Sid) (pe : Port × Sid × TI × Port) (log : List Event) : List (Nat × Val) := pushHist src pe.1 (csh pe) log

structure PushRef (cfg : Cfg) (src q : Sid) (pe : Port × Sid × TI × Port) (s : State) : Prop where
  ok : QOk s q
  nosd : (s.sims q).setData = []
  hs : (chist src pe s.log).Pairwise (fun a b => a.1 ≤ b.1)
  /-- the buffered values of the connection = the produced values not yet due at the last step, in production order -/
  buf : keyView (keyOf src pe) (s.sims q).buffer = (chist src pe s.log).filter (fun x => after (lastBegun (s.sims q)) x.1)
  /-- the remembered value of a persistent connection = the last produced value due at the last step, else the initial one -/
  pers : ∀ d0, InputData.get? (cfg.sim q).persistent0 (keyOf src pe) = some d0 →
    InputData.get? (s.sims q).persistent (keyOf src pe) =
      some (lastVal ((chist src pe s.log).filter (fun x => !after (lastBegun (s.sims q)) x.1)) d0)

theorem pushRef_frame {cfg : Cfg} {src q : Sid} {pe : Port × Sid × TI × Port} {s s' : State} (h : PushRef cfg src q pe s)
    (hf : PFEq s s') : PushRef cfg src q pe s' := by
  have hq := hf.pf q
  simp only [SimSt.pf, Prod.mk.injEq] at hq
  obtain ⟨hb, hc, hp, hg, hsd⟩ := hq
  have hlog : chist src pe s'.log = chist src pe s.log := hf.log.pushHist src pe.1 (csh pe)
  have hlb : lastBegun (s'.sims q) = lastBegun (s.sims q) := by unfold lastBegun; rw [hg]
  refine ⟨?_, by rw [hsd]; exact h.nosd, by rw [hlog]; exact h.hs, by rw [hb, hlog, hlb]; exact h.buf, ?_⟩
  · unfold QOk; rw [hb, hc]; exact h.ok
  · intro d0 hd0
    rw [hp, hlog, hlb]
    exact h.pers d0 hd0

theorem hits_other_source {q : Sid} {src p : Sid} (pe e : Port × Sid × TI × Port) (hp : p ≠ src) : hits q (keyOf src pe) p e = false := by
  unfold hits
  have : (keyOf p e == keyOf src pe) = false := by
    simp only [beq_eq_false_iff_ne]
    intro h
    have := congrArg InKey.ssid h
    simp only [keyOf] at this
    exact hp this
  rw [this]; simp

theorem filter_hits_other_source (cfg : Cfg) {q src p : Sid} (pe : Port × Sid × TI × Port) (hp : p ≠ src) :
    (cfg.sim p).push.filter (hits q (keyOf src pe) p) = [] := by
  rw [List.filter_eq_nil_iff]
  intro e _
  rw [hits_other_source pe e hp]
  simp

theorem chist_got (src : Sid) (pe : Port × Sid × TI × Port) (p : Sid) (c oT : TT) (data : OutData) (log : List Event) :
    chist src pe (.got p c oT data :: log) =
      if p = src then (match OutData.get? data pe.1 with
        | some v => chist src pe log ++ [(TT.time oT + csh pe, v)]
        | none => chist src pe log) else chist src pe log := rfl

theorem gotTimes_got (p' p : Sid) (c oT : TT) (data : OutData) (log : List Event) :
    gotTimes p (.got p' c oT data :: log) = if p' = p then TT.time oT :: gotTimes p log else gotTimes p log := rfl

/-- a `get_data` reply of `p` is entered: event logged, outputs pushed -/
theorem pushRef_put {cfg : Cfg} {src q : Sid} {pe : Port × Sid × TI × Port} {s : State} (h : PushRef cfg src q pe s)
    (hkey : (cfg.sim src).push.filter (hits q (keyOf src pe) src) = [pe])
    (p : Sid) (c oT : TT) (ot : Int) (d : DataReply) (htime : TT.time oT = ot.toNat)
    (hmono : p = src → ∀ t ∈ gotTimes src s.log, t ≤ ot.toNat)
    (hbok : ∀ x ∈ ((storeOutputs cfg ((s.upd p fun x => { x with outTime := oT }).emit (.got p c oT d.data)) p ot d).sims q).buffer,
      after (lastBegun (s.sims q)) x.time = true) :
    PushRef cfg src q pe (storeOutputs cfg ((s.upd p fun x => { x with outTime := oT }).emit (.got p c oT d.data)) p ot d) := by
  -- the state in which the outputs are stored
  obtain ⟨s1, hs1⟩ : ∃ s1, s1 = (s.upd p fun x => { x with outTime := oT }).emit (.got p c oT d.data) := ⟨_, rfl⟩
  rw [← hs1] at hbok ⊢
  have h1q : (s1.sims q).pf = (s.sims q).pf := by
    rw [hs1, State.emit_sims, State.upd_sims]; split <;> rfl
  simp only [SimSt.pf, Prod.mk.injEq] at h1q
  obtain ⟨hb1, hc1, hp1, hg1, hsd1⟩ := h1q
  have hlog1 : s1.log = .got p c oT d.data :: s.log := by rw [hs1]; rfl
  -- the store, seen through `q` and the key
  rw [storeOutputs_eq] at hbok ⊢
  obtain ⟨s2, hs2⟩ : ∃ s2, s2 = (if cfg.useCache then s1.upd p fun x =>
        { x with outputs := if x.outputs.any (·.1 == ot) then x.outputs.map (fun e => if e.1 == ot then (ot, d.data) else e)
                            else x.outputs ++ [(ot, d.data)] } else s1) := ⟨_, rfl⟩
  rw [← hs2] at hbok ⊢
  have h2q : (s2.sims q).pf = (s1.sims q).pf ∧ s2.log = s1.log := by
    rw [hs2]
    split
    · constructor
      · rw [State.upd_sims]; split <;> rfl
      · rfl
    · exact ⟨rfl, rfl⟩
  obtain ⟨h2pf, hlog2⟩ := h2q
  simp only [SimSt.pf, Prod.mk.injEq] at h2pf
  obtain ⟨hb2, hc2, hp2, hg2, hsd2⟩ := h2pf
  have hok2 : QOk s2 q := by unfold QOk; rw [hb2, hc2, hb1, hc1]; exact h.ok
  have hlen : ((cfg.sim p).push.filter (hits q (keyOf src pe) p)).length ≤ 1 := by
    by_cases hp : p = src
    · rw [hp, hkey]; simp
    · rw [filter_hits_other_source cfg pe hp]; simp
  have hmono2 : ∀ e ∈ (cfg.sim p).push, hits q (keyOf src pe) p e = true → ∀ x ∈ (s2.sims q).buffer, x.key = keyOf src pe →
      x.time ≤ ot.toNat + tier e.2.2.1.tiers 0 := by
    intro e he hh x hx hxk
    by_cases hp : p = src
    · subst hp
      have hepe : e = pe := by
        have : e ∈ (cfg.sim p).push.filter (hits q (keyOf p pe) p) := List.mem_filter.mpr ⟨he, hh⟩
        rw [hkey] at this
        simpa using this
      subst hepe
      rw [hb2, hb1] at hx
      have hv := mem_keyView hx hxk
      rw [h.buf] at hv
      obtain ⟨t, ht, hxt⟩ := pushHist_due p e.1 (csh e) s.log _ (List.mem_filter.mp hv).1
      have := hmono rfl t ht
      simp only [csh] at hxt
      omega
    · rw [hits_other_source pe e hp] at hh
      cases hh
  obtain ⟨hokF, hviewF, hpersF, hbegF⟩ := pushFold_q q (keyOf src pe) p ot d (cfg.sim p).push s2 hlen hok2 hmono2
  -- the final `data` update does not touch `q`'s fields
  have hfin : ∀ st : State, ((st.upd p fun x => { x with data := d.data }).sims q).pf = (st.sims q).pf := by
    intro st; rw [State.upd_sims]; split <;> rfl
  have hfq := hfin ((cfg.sim p).push.foldl (pushOne p ot d) s2)
  simp only [SimSt.pf, Prod.mk.injEq] at hfq
  obtain ⟨hbf, hcf, hpf, hgf, hsdf⟩ := hfq
  have hlogF : (((cfg.sim p).push.foldl (pushOne p ot d) s2).upd p fun x => { x with data := d.data }).log = .got p c oT d.data :: s.log := by
    have : ∀ (l : List (Port × Sid × TI × Port)) (st : State), (l.foldl (pushOne p ot d) st).log = st.log := by
      intro l
      induction l with
      | nil => intro st; rfl
      | cons e l ih =>
        intro st
        simp only [List.foldl_cons]
        rw [ih]
        unfold pushOne
        split <;> rfl
    show ((cfg.sim p).push.foldl (pushOne p ot d) s2).log = _
    rw [this, hlog2, hlog1]
  have hsdF : ∀ (l : List (Port × Sid × TI × Port)) (st : State), ((l.foldl (pushOne p ot d) st).sims q).setData = (st.sims q).setData := by
    intro l
    induction l with
    | nil => intro st; rfl
    | cons e l ih =>
      intro st
      simp only [List.foldl_cons]
      rw [ih]
      unfold pushOne
      split
      · rfl
      · rw [State.upd_sims]; split <;> rfl
  have hlb : lastBegun ((((cfg.sim p).push.foldl (pushOne p ot d) s2).upd p fun x => { x with data := d.data }).sims q) = lastBegun (s.sims q) := by
    unfold lastBegun; rw [hgf, hbegF, hg2, hg1]
  -- the adds and the history grow together
  have hadds : ((cfg.sim p).push.filter (hits q (keyOf src pe) p)).flatMap (entryOf ot d) =
      if p = src then (match OutData.get? d.data pe.1 with | some v => [(ot.toNat + csh pe, v)] | none => []) else [] := by
    by_cases hp : p = src
    · rw [if_pos hp, hp, hkey]
      simp only [List.flatMap_cons, List.flatMap_nil, List.append_nil, entryOf, csh]
    · rw [if_neg hp, filter_hits_other_source cfg pe hp]; rfl
  -- the new entry is in the buffer, hence due after the last step
  have hdue : p = src → ∀ v, OutData.get? d.data pe.1 = some v → after (lastBegun (s.sims q)) (ot.toNat + csh pe) = true := by
    intro hp v hg
    have hmem : (ot.toNat + csh pe, v) ∈ keyView (keyOf src pe)
        ((((cfg.sim p).push.foldl (pushOne p ot d) s2).upd p fun x => { x with data := d.data }).sims q).buffer := by
      rw [hbf, hviewF, hadds, if_pos hp, hg]
      simp
    unfold keyView at hmem
    rw [List.mem_map] at hmem
    obtain ⟨x, hx, hxe⟩ := hmem
    have := hbok x (List.mem_filter.mp hx).1
    simp only [Prod.mk.injEq] at hxe
    rw [hxe.1] at this
    exact this
  refine ⟨?_, ?_, ?_, ?_, ?_⟩
  · unfold QOk; rw [hbf, hcf]; exact hokF
  · rw [hsdf, hsdF, hsd2, hsd1]; exact h.nosd
  · rw [hlogF, chist_got]
    by_cases hp : p = src
    · rw [if_pos hp]
      cases hg : OutData.get? d.data pe.1 with
      | none => exact h.hs
      | some v =>
        simp only
        rw [List.pairwise_append]
        refine ⟨h.hs, List.pairwise_singleton _ _, ?_⟩
        intro a ha b hb
        simp only [List.mem_singleton] at hb
        subst hb
        obtain ⟨t, ht, hat⟩ := pushHist_due src pe.1 (csh pe) s.log a ha
        have := hmono hp t ht
        simp only
        omega
    · rw [if_neg hp]; exact h.hs
  · rw [hbf, hviewF, hb2, hb1, h.buf, hadds, hlogF, chist_got, hlb]
    by_cases hp : p = src
    · rw [if_pos hp, if_pos hp]
      cases hg : OutData.get? d.data pe.1 with
      | none => simp
      | some v =>
        simp only
        rw [List.filter_append, htime]
        have := hdue hp v hg
        simp [this]
    · rw [if_neg hp, if_neg hp]; simp
  · intro d0 hd0
    rw [hpf, hpersF, hp2, hp1, h.pers d0 hd0, hlogF, chist_got, hlb]
    by_cases hp : p = src
    · rw [if_pos hp]
      cases hg : OutData.get? d.data pe.1 with
      | none => rfl
      | some v =>
        simp only
        rw [List.filter_append, htime]
        have := hdue hp v hg
        simp [this]
    · rw [if_neg hp]

/-! ### a step of `q` begins -/

/-- what beginning a step does to the simulator's data-flow fields and to the log -/
theorem beginStep_fields (cfg : Cfg) (s : State) (q : Sid) (c : TT) (rest : List TT) (hnf0 : s.failed = none)
    (hnf : (beginStep cfg s q c rest).failed = none) :
    ∃ inp m, inp = stepInputs cfg (s.upd q fun x => { x with cur := some c, next := rest }) q c ∧
      (beginStep cfg s q c rest).log = .begin q c inp m :: s.log ∧
      ((beginStep cfg s q c rest).sims q).buffer = (s.sims q).buffer.filter (fun e => !(e.time ≤ TT.time c)) ∧
      ((beginStep cfg s q c rest).sims q).ctr = (s.sims q).ctr ∧
      ((beginStep cfg s q c rest).sims q).begun = c :: (s.sims q).begun ∧
      ((beginStep cfg s q c rest).sims q).setData = [] ∧
      ((beginStep cfg s q c rest).sims q).persistent =
        (s.sims q).persistent.map (fun e => match InputData.get? inp e.1 with | some v => (e.1, v) | none => e) := by
  obtain ⟨s1, hdef⟩ : ∃ s1, s1 = s.upd q (fun x => { x with cur := some c, next := rest }) := ⟨_, rfl⟩
  have hf1 : s1.failed = none := by rw [hdef]; exact hnf0
  have hlog1 : s1.log = s.log := by rw [hdef]; rfl
  have hq1 : (s1.sims q).pf = (s.sims q).pf := by rw [hdef, State.upd_same]; rfl
  simp only [SimSt.pf, Prod.mk.injEq] at hq1
  obtain ⟨hb1, hc1, hp1, hg1, hsd1⟩ := hq1
  unfold beginStep at hnf ⊢
  simp only at hnf ⊢
  rw [← hdef] at hnf ⊢
  split
  · rename_i hbad
    rw [if_pos hbad] at hnf
    exfalso
    unfold State.fail at hnf
    rw [hf1] at hnf
    cases hnf
  · rename_i hbad
    split
    · rename_i hloop
      rw [if_neg hbad, if_pos hloop] at hnf
      exfalso
      unfold State.fail at hnf
      rw [hf1] at hnf
      cases hnf
    · refine ⟨stepInputs cfg s1 q c, maxAdvance cfg (getInputData cfg s1 q c).2 q c, rfl, ?_, ?_, ?_, ?_, ?_, ?_⟩
      · rw [← hlog1]; rfl
      · simp only [getInputData, State.emit_sims, State.upd_same, bufferTake]
        rw [hb1]
      · simp only [getInputData, State.emit_sims, State.upd_same]
        exact hc1
      · simp only [getInputData, State.emit_sims, State.upd_same]
        rw [hg1]
      · simp only [getInputData, State.emit_sims, State.upd_same]
      · simp only [getInputData, State.emit_sims, State.upd_same]
        rw [hp1]
        rfl

/-- the value a fold of due entries leaves under key `k`: the last due entry of that key, else what was there -/
theorem fold_set_get (k : InKey) : ∀ (es : List BufEntry) (inp : InputData),
    InputData.get? (es.foldl (fun acc e => InputData.set acc e.key e.val) inp) k =
      match (keyView k es).getLast? with
      | some x => some x.2
      | none => InputData.get? inp k
  | [], inp => rfl
  | e :: es, inp => by
    simp only [List.foldl_cons]
    rw [fold_set_get k es, keyView_cons]
    by_cases hk : e.key = k
    · have hb : (e.key == k) = true := by simp [hk]
      rw [if_pos hb]
      cases hv : keyView k es with
      | nil =>
        simp only [List.getLast?_nil, List.getLast?_singleton]
        rw [hk]; exact InputData.get?_set_same _ _ _
      | cons y ys =>
        rw [List.getLast?_cons_cons]
        cases hl : (y :: ys).getLast? with
        | none => simp at hl
        | some z => rfl
    · have hb : ¬ (e.key == k) = true := by simpa using hk
      rw [if_neg hb]
      cases (keyView k es).getLast? with
      | some x => rfl
      | none => exact InputData.get?_set_other _ _ _ _ hk

/-- a history in due order splits at `T ≤ c` -/
theorem filter_split_sorted (T c : Nat) (hTc : T ≤ c) : ∀ (H : List (Nat × Val)), H.Pairwise (fun a b => a.1 ≤ b.1) →
    H.filter (fun x => decide (x.1 ≤ c)) = H.filter (fun x => !decide (T < x.1)) ++ (H.filter (fun x => decide (T < x.1))).filter (fun x => decide (x.1 ≤ c))
  | [], _ => rfl
  | x :: H, hs => by
    have hx := (List.pairwise_cons.mp hs).1
    have hH := (List.pairwise_cons.mp hs).2
    by_cases hxT : T < x.1
    · -- everything from here on is after `T`
      have hall : ∀ y ∈ x :: H, T < y.1 := by
        intro y hy
        rcases List.mem_cons.mp hy with rfl | hy
        · exact hxT
        · have := hx y hy; omega
      have h1 : (x :: H).filter (fun x => !decide (T < x.1)) = [] := by
        rw [List.filter_eq_nil_iff]
        intro y hy
        simp [hall y hy]
      have h2 : (x :: H).filter (fun x => decide (T < x.1)) = x :: H := by
        rw [List.filter_eq_self]
        intro y hy
        simp [hall y hy]
      rw [h1, h2]; rfl
    · have ih := filter_split_sorted T c hTc H hH
      have hxc : x.1 ≤ c := by omega
      rw [List.filter_cons_of_pos (by simp [hxc]), List.filter_cons_of_pos (by simp [hxT]), List.filter_cons_of_neg (by simp [hxT]), ih]
      rfl

theorem merge_keeps' (persistent : InputData) : ∀ (acc : InputData) (k : InKey) (v : Val),
    InputData.get? acc k = some v →
    InputData.get? (persistent.foldl (fun acc e => if InputData.has acc e.1 then acc else acc ++ [e]) acc) k = some v := by
  induction persistent with
  | nil => intro acc k v h; exact h
  | cons e ps ih =>
    intro acc k v h
    simp only [List.foldl_cons]
    apply ih
    split
    · exact h
    · rw [InputData.get?_append_single, h]

/-- a key that set_data did not provide gets the remembered persistent value -/
theorem persistent_default' (persistent : InputData) : ∀ (acc : InputData) (k : InKey),
    InputData.get? acc k = none →
    InputData.get? (persistent.foldl (fun acc e => if InputData.has acc e.1 then acc else acc ++ [e]) acc) k
      = InputData.get? persistent k := by
  induction persistent with
  | nil => intro acc k h; simpa [InputData.get?_nil] using h
  | cons e ps ih =>
    intro acc k h
    simp only [List.foldl_cons, InputData.get?_cons]
    by_cases hek : e.1 = k
    · subst hek
      have hhas : InputData.has acc e.1 = false := by rw [InputData.has_eq, h]; rfl
      simp only [hhas, Bool.false_eq_true, if_false, if_true]
      apply merge_keeps'
      rw [InputData.get?_append_single, h]; simp
    · simp only [hek, if_false]
      apply ih
      split
      · exact h
      · rw [InputData.get?_append_single, h]; simp [hek]

theorem filter_false' {α : Type} (l : List α) : l.filter (fun _ => false) = [] := by
  induction l with
  | nil => rfl
  | cons a l ih => simp [List.filter_cons, ih]

theorem get?_map_update (inp : InputData) (k : InKey) : ∀ (pers : InputData),
    InputData.get? (pers.map (fun e => match InputData.get? inp e.1 with | some v => (e.1, v) | none => e)) k =
      match InputData.get? pers k with
      | none => none
      | some old => some ((InputData.get? inp k).getD old)
  | [] => rfl
  | e :: pers => by
    simp only [List.map_cons, InputData.get?_cons]
    have hkey : (match InputData.get? inp e.1 with | some v => (e.1, v) | none => e).1 = e.1 := by
      split <;> rfl
    rw [hkey]
    by_cases hk : e.1 = k
    · simp only [hk, if_true]
      subst hk
      cases InputData.get? inp e.1 with
      | none => rfl
      | some v => rfl
    · simp only [hk, if_false]
      exact get?_map_update inp k pers

theorem lastVal_append (A B : List (Nat × Val)) (d : Val) :
    lastVal (A ++ B) d = match B.getLast? with | some x => x.2 | none => lastVal A d := by
  unfold lastVal
  rw [List.getLast?_append]
  cases B.getLast? with
  | some x => rfl
  | none => simp

theorem pullInputs_nil (cfg : Cfg) (s : State) (q : Sid) (c : TT) (inp : InputData) (h : (cfg.sim q).pulled = []) :
    pullInputs cfg s q c inp = inp := by
  unfold pullInputs; rw [h]; rfl

/-- **a step of `q` begins**: the invariant is kept, and the inputs of the request carry, under the connection's key, the
last produced value that is due — for a persistent connection the last produced value due at or before the step time,
the declared initial value if there is none -/
theorem pushRef_begin {cfg : Cfg} {src q : Sid} {pe : Port × Sid × TI × Port} {s : State} (h : PushRef cfg src q pe s)
    (hpull : (cfg.sim q).pulled = []) (c : TT) (rest : List TT) (hnf0 : s.failed = none)
    (hnf : (beginStep cfg s q c rest).failed = none) (hT : ∀ t, lastBegun (s.sims q) = some t → t ≤ TT.time c) :
    PushRef cfg src q pe (beginStep cfg s q c rest) ∧
    ∃ inp m, (beginStep cfg s q c rest).log = .begin q c inp m :: s.log ∧
      InputData.get? inp (keyOf src pe) =
        (match ((chist src pe s.log).filter (fun x => after (lastBegun (s.sims q)) x.1 && decide (x.1 ≤ TT.time c))).getLast? with
          | some x => some x.2
          | none => InputData.get? (s.sims q).persistent (keyOf src pe)) ∧
      ∀ d0, InputData.get? (cfg.sim q).persistent0 (keyOf src pe) = some d0 →
        InputData.get? inp (keyOf src pe) = some (lastVal ((chist src pe s.log).filter (fun x => decide (x.1 ≤ TT.time c))) d0) := by
  obtain ⟨inp, m, hinp, hlog, hbuf, hctr, hbeg, hsd, hpers⟩ := beginStep_fields cfg s q c rest hnf0 hnf
  -- the inputs, under the key
  have hq1 : ((s.upd q fun x => { x with cur := some c, next := rest }).sims q).pf = (s.sims q).pf := by rw [State.upd_same]; rfl
  simp only [SimSt.pf, Prod.mk.injEq] at hq1
  obtain ⟨hb1, _, hp1, _, hsd1⟩ := hq1
  have hval : InputData.get? inp (keyOf src pe) =
      (match ((chist src pe s.log).filter (fun x => after (lastBegun (s.sims q)) x.1 && decide (x.1 ≤ TT.time c))).getLast? with
        | some x => some x.2
        | none => InputData.get? (s.sims q).persistent (keyOf src pe)) := by
    rw [hinp]
    unfold stepInputs
    simp only
    rw [pullInputs_nil cfg _ q c _ hpull]
    unfold bufferTake
    simp only
    rw [fold_set_get, hb1, hp1, hsd1, h.nosd]
    rw [keyView_filter (keyOf src pe) (fun e => decide (e.time ≤ TT.time c)) (fun x => decide (x.1 ≤ TT.time c)) (fun _ => rfl),
      h.buf, List.filter_filter]
    have hdef := persistent_default' (s.sims q).persistent [] (keyOf src pe) rfl
    rw [hdef]
    have hcongr : (chist src pe s.log).filter (fun x => decide (x.1 ≤ TT.time c) && after (lastBegun (s.sims q)) x.1) =
        (chist src pe s.log).filter (fun x => after (lastBegun (s.sims q)) x.1 && decide (x.1 ≤ TT.time c)) := by
      apply List.filter_congr
      intro x _
      exact Bool.and_comm _ _
    rw [hcongr]
  have hvalP : ∀ d0, InputData.get? (cfg.sim q).persistent0 (keyOf src pe) = some d0 →
      InputData.get? inp (keyOf src pe) = some (lastVal ((chist src pe s.log).filter (fun x => decide (x.1 ≤ TT.time c))) d0) := by
    intro d0 hd0
    rw [hval, h.pers d0 hd0]
    cases hlb : lastBegun (s.sims q) with
    | none =>
      simp only [after, Bool.true_and, Bool.not_true]
      rw [filter_false']
      unfold lastVal
      cases ((chist src pe s.log).filter (fun x => decide (x.1 ≤ TT.time c))).getLast? with
      | some x => rfl
      | none => rfl
    | some t =>
      have htc := hT t hlb
      simp only [after]
      rw [filter_split_sorted t (TT.time c) htc _ h.hs, lastVal_append, ← List.filter_filter]
      have : ((chist src pe s.log).filter (fun x => decide (t < x.1))).filter (fun x => decide (x.1 ≤ TT.time c)) =
          ((chist src pe s.log).filter (fun x => decide (x.1 ≤ TT.time c))).filter (fun x => decide (t < x.1)) := by
        rw [List.filter_filter, List.filter_filter]
        apply List.filter_congr
        intro x _
        exact Bool.and_comm _ _
      rw [← this]
      cases (((chist src pe s.log).filter (fun x => decide (t < x.1))).filter (fun x => decide (x.1 ≤ TT.time c))).getLast? with
      | some x => rfl
      | none => rfl
  refine ⟨?_, inp, m, hlog, hval, hvalP⟩
  -- the invariant afterwards
  have hlb' : lastBegun ((beginStep cfg s q c rest).sims q) = some (TT.time c) := by
    unfold lastBegun; rw [hbeg]; rfl
  have hch : chist src pe (beginStep cfg s q c rest).log = chist src pe s.log := by
    rw [hlog]; exact pushHist_cons_noGot src pe.1 (csh pe) _ _ rfl
  refine ⟨?_, hsd, by rw [hch]; exact h.hs, ?_, ?_⟩
  · unfold QOk
    rw [hbuf, hctr]
    refine ⟨?_, fun x hx => h.ok.2 x (List.mem_filter.mp hx).1⟩
    unfold BufSorted
    exact h.ok.1.sublist List.filter_sublist
  · rw [hbuf, hch, hlb',
      keyView_filter (keyOf src pe) (fun e => !decide (e.time ≤ TT.time c)) (fun x => !decide (x.1 ≤ TT.time c)) (fun _ => rfl),
      h.buf, List.filter_filter]
    apply List.filter_congr
    intro x _
    simp only [after]
    cases hlb : lastBegun (s.sims q) with
    | none =>
      simp only
      by_cases hx : TT.time c < x.1
      · have h1 : ¬ x.1 ≤ TT.time c := by omega
        simp [hx, h1]
      · have h1 : x.1 ≤ TT.time c := by omega
        simp [hx, h1]
    | some t =>
      have htc := hT t hlb
      simp only
      by_cases hx : TT.time c < x.1
      · have h1 : ¬ x.1 ≤ TT.time c := by omega
        have h2 : t < x.1 := by omega
        simp [hx, h1, h2]
      · have h1 : x.1 ≤ TT.time c := by omega
        simp [hx, h1]
  · intro d0 hd0
    rw [hpers, get?_map_update, h.pers d0 hd0, hch, hlb']
    simp only
    rw [hvalP d0 hd0]
    simp only [Option.getD_some, after]
    congr 2
    apply List.filter_congr
    intro x _
    by_cases hx : TT.time c < x.1
    · have h1 : ¬ x.1 ≤ TT.time c := by omega
      simp [hx, h1]
    · have h1 : x.1 ≤ TT.time c := by omega
      simp [hx, h1]

/-! ### every action -/

theorem pushRef_frame_q {cfg : Cfg} {src q : Sid} {pe : Port × Sid × TI × Port} {s s' : State} (h : PushRef cfg src q pe s)
    (hq : (s'.sims q).pf = (s.sims q).pf) (hl : LogExt s s') : PushRef cfg src q pe s' := by
  simp only [SimSt.pf, Prod.mk.injEq] at hq
  obtain ⟨hb, hc, hp, hg, hsd⟩ := hq
  have hlog : chist src pe s'.log = chist src pe s.log := hl.pushHist src pe.1 (csh pe)
  have hlb : lastBegun (s'.sims q) = lastBegun (s.sims q) := by unfold lastBegun; rw [hg]
  refine ⟨?_, by rw [hsd]; exact h.nosd, by rw [hlog]; exact h.hs, by rw [hb, hlog, hlb]; exact h.buf, ?_⟩
  · unfold QOk; rw [hb, hc]; exact h.ok
  · intro d0 hd0
    rw [hp, hlog, hlb]
    exact h.pers d0 hd0

theorem after_of_forall {x : SimSt} {t : Nat} (h : ∀ b ∈ x.begun, TT.time b < t) : after (lastBegun x) t = true := by
  unfold lastBegun after
  cases hb : x.begun with
  | nil => rfl
  | cons b bs =>
    simp only [List.head?_cons, Option.map_some, decide_eq_true_eq]
    exact h b (by rw [hb]; exact List.mem_cons_self)

/-- the reply of `a` reports an output time that is not before an earlier one of the same simulator -/
def MonoActP (s : State) (a : Action) : Prop :=
  ∀ p d c, a = .dataReply p d → (s.sims p).cur = some c → ∀ t ∈ gotTimes p s.log, (t : Int) ≤ (outTimeOf c d).1

def NoSetData (a : Action) : Prop := ∀ p t e, a ≠ .setData p t e

/-- **the push invariant is kept by every action** of a run without asynchronous `set_data`, given what the scheduler
invariants provide: nothing in `q`'s buffer is due at or before a step it has begun (`BufOk`, `no_late_arrival`), and the
step `q` begins next is not before its earlier steps -/
theorem step_pushRef {cfg : Cfg} {src q : Sid} {pe : Port × Sid × TI × Port} {s s' : State} {a : Action}
    (h : PushRef cfg src q pe s) (hs : step cfg s a = some s') (hf' : s'.failed = none)
    (hkey : (cfg.sim src).push.filter (hits q (keyOf src pe) src) = [pe]) (hpull : (cfg.sim q).pulled = [])
    (hmono : MonoActP s a) (hnsd : NoSetData a)
    (hT : ∀ c rest, (s.sims q).next = c :: rest → ∀ b ∈ (s.sims q).begun, TT.time b ≤ TT.time c)
    (hbok : ∀ e ∈ (s'.sims q).buffer, ∀ b ∈ (s'.sims q).begun, TT.time b < e.time) :
    PushRef cfg src q pe s' := by
  cases a with
  | start p =>
    simp only [step, stepStart] at hs
    split at hs
    · split at hs
      · cases hs; exact pushRef_frame h (advance_pfEq cfg s p)
      · cases hs; exact pushRef_frame h ((advance_pfEq cfg s p).trans (settle_pfEq cfg _ p))
    · cases hs
  | wake p =>
    simp only [step, stepWake] at hs
    split at hs
    · cases hpc : (s.sims p).pc with
      | awaitSettle a dl =>
        simp only [hpc] at hs
        split at hs
        · have h1 : PFEq s (if cfg.rt.isSome then advance cfg (s.upd p fun y => { y with newer := false }) p
              else (s.upd p fun y => { y with newer := false })) := by
            have h0 : PFEq s (s.upd p fun y => { y with newer := false }) := pfEq_upd _ _ _ (fun _ => rfl)
            split
            · exact h0.trans (advance_pfEq cfg _ p)
            · exact h0
          generalize (if cfg.rt.isSome then advance cfg (s.upd p fun y => { y with newer := false }) p
              else (s.upd p fun y => { y with newer := false })) = s2 at hs h1
          by_cases hfl2 : s2.failed.isSome = true
          · simp only [hfl2, if_true, Option.some.injEq] at hs
            subst hs; exact pushRef_frame h h1
          · simp only [hfl2, Bool.false_eq_true, if_false, Option.some.injEq] at hs
            subst hs; exact pushRef_frame h (h1.trans (settle_pfEq cfg _ p))
        · cases hs
      | init => simp [hpc] at hs
      | waitDeps t => simp [hpc] at hs
      | inStep => simp [hpc] at hs
      | inGet => simp [hpc] at hs
      | done => simp [hpc] at hs
    · cases hs
  | deps p =>
    simp only [step, stepDeps] at hs
    split at hs
    · rename_i hlive
      have hsf : s.failed = none := by
        simp only [live, Bool.and_eq_true, Option.isNone_iff_eq_none] at hlive
        exact hlive.1
      cases hpc : (s.sims p).pc with
      | waitDeps t =>
        simp only [hpc] at hs
        split at hs
        · cases hnext : (s.sims p).next with
          | nil => simp [hnext] at hs
          | cons c rest =>
            simp only [hnext, Option.some.injEq] at hs
            subst hs
            by_cases hpq : p = q
            · subst hpq
              refine (pushRef_begin h hpull c rest hsf hf' ?_).1
              intro t ht
              unfold lastBegun at ht
              cases hb : (s.sims p).begun with
              | nil => rw [hb] at ht; cases ht
              | cons b bs =>
                rw [hb] at ht
                simp only [List.head?_cons, Option.map_some, Option.some.injEq] at ht
                rw [← ht]
                exact hT c rest hnext b (by rw [hb]; exact List.mem_cons_self)
            · have hqp : q ≠ p := fun e => hpq e.symm
              refine pushRef_frame_q h (by rw [beginStep_other cfg s p c rest hqp]) ?_
              -- the log grows by a `begin` event, or not at all
              unfold beginStep
              simp only
              split
              · exact (logExt_upd _ _ _).trans (logExt_fail _ _)
              · split
                · exact (logExt_upd _ _ _).trans (logExt_fail _ _)
                · refine ⟨[_], rfl, ?_⟩
                  intro e he
                  simp only [List.mem_singleton] at he
                  rw [he]; rfl
        · cases hs
      | init => simp [hpc] at hs
      | awaitSettle a dl => simp [hpc] at hs
      | inStep => simp [hpc] at hs
      | inGet => simp [hpc] at hs
      | done => simp [hpc] at hs
    · cases hs
  | setData p target entries => exact absurd rfl (hnsd p target entries)
  | getDataReq p target =>
    simp only [step, stepGetDataReq] at hs
    split at hs
    · split at hs
      · cases hs; exact pushRef_frame h (pfEq_fail _ _)
      · cases hs; exact h
    · cases hs
  | setEvent p t =>
    simp only [step, stepSetEvent] at hs
    split at hs
    · split at hs
      · cases hs; exact pushRef_frame h (pfEq_fail _ _)
      · split at hs
        · cases hs; exact pushRef_frame h (schedule_pfEq _ _ _)
        · cases hs; exact pushRef_frame h (pfEq_emit _ _ rfl)
    · cases hs
  | stepReply p r =>
    simp only [step, stepStepReply] at hs
    split at hs
    · cases hcur : (s.sims p).cur with
      | none => simp [hcur] at hs
      | some c =>
        simp only [hcur, Option.some.injEq] at hs
        subst hs
        have h1 : PFEq s ((s.upd p fun y => { y with last := some c }).emit (.stepped p c)) := by
          refine PFEq.trans ?_ (pfEq_emit _ _ rfl)
          exact pfEq_upd _ _ _ (fun _ => rfl)
        unfold processStepReply
        simp only
        cases r with
        | bad => exact pushRef_frame h (h1.trans (pfEq_fail _ _))
        | none =>
          simp only
          split
          · exact pushRef_frame h (h1.trans (pfEq_fail _ _))
          · exact pushRef_frame h (h1.trans (afterStep_pfEq cfg _ p c))
        | int n =>
          simp only
          split
          · exact pushRef_frame h (h1.trans (pfEq_fail _ _))
          · split
            · exact pushRef_frame h ((h1.trans (schedule_pfEq _ _ _)).trans (afterStep_pfEq cfg _ p c))
            · exact pushRef_frame h (h1.trans (afterStep_pfEq cfg _ p c))
    · cases hs
  | dataReply p d =>
    simp only [step, stepDataReply] at hs
    split at hs
    · rename_i hlive
      cases hcur : (s.sims p).cur with
      | none => simp [hcur] at hs
      | some c =>
        simp only [hcur, Option.some.injEq] at hs
        subst hs
        have hsf : s.failed = none := by
          simp only [live, Bool.and_eq_true, Option.isNone_iff_eq_none] at hlive
          exact hlive.1.1
        unfold processDataReply at hf' hbok ⊢
        simp only at hf' hbok ⊢
        split
        · rename_i hot
          rw [if_pos hot] at hf'
          exfalso
          unfold State.fail at hf'
          simp only [State.emit, State.upd, hsf] at hf'
          cases hf'
        · rename_i hot
          rw [if_neg hot] at hbok
          have hfin := finish_pfEq cfg (storeOutputs cfg ((s.upd p fun x => { x with outTime := (outTimeOf c d).2 }).emit
            (.got p c (outTimeOf c d).2 d.data)) p (outTimeOf c d).1 d) p c
          refine pushRef_frame ?_ hfin
          have hq := hfin.pf q
          simp only [SimSt.pf, Prod.mk.injEq] at hq
          obtain ⟨hbq, _, _, hgq, _⟩ := hq
          have ht := outTimeOf_time c d hot
          refine pushRef_put h hkey p c (outTimeOf c d).2 (outTimeOf c d).1 d (by omega) ?_ ?_
          · intro hp t htm
            have := hmono p d c rfl hcur t (by rw [hp]; exact htm)
            omega
          · intro x hx
            apply after_of_forall
            intro b hb
            have hbeg := (storeOutputs_buffer cfg ((s.upd p fun x => { x with outTime := (outTimeOf c d).2 }).emit
              (.got p c (outTimeOf c d).2 d.data)) p (outTimeOf c d).1 d q).1
            have hbs : (((s.upd p fun x => { x with outTime := (outTimeOf c d).2 }).emit (.got p c (outTimeOf c d).2 d.data)).sims q).begun
                = (s.sims q).begun := by
              rw [State.emit_sims, State.upd_sims]; split <;> rfl
            exact hbok x (by rw [hbq]; exact hx) b (by rw [hgq, hbeg, hbs]; exact hb)
    · cases hs
  | tick n =>
    simp only [step, stepTick] at hs
    split at hs
    · cases hs
    · cases hs
      exact ⟨h.ok, h.nosd, h.hs, h.buf, h.pers⟩

/-! ### all runs without asynchronous `set_data` whose reported output times do not go back -/

inductive ReachP (cfg : Cfg) : State → Prop where
  | init : ReachP cfg (initState cfg)
  | step {s s' : State} {a : Action} : ReachP cfg s → step cfg s a = some s' → MonoActP s a → NoSetData a → ReachP cfg s'

theorem ReachP.reach {cfg : Cfg} {s : State} (h : ReachP cfg s) : Reach cfg s := by
  induction h with
  | init => exact Reach.init
  | step _ hs _ _ ih => exact Reach.step ih hs

theorem begun_le_next {cfg : Cfg} (hw : WFCfg cfg) {s : State} (hr : Reach cfg s) (hnf : s.failed = none) {q : Sid} (hq : q < cfg.n) :
    ∀ c rest, (s.sims q).next = c :: rest → ∀ b ∈ (s.sims q).begun, TT.time b ≤ TT.time c := by
  intro c rest hnext b hb
  obtain ⟨hcore, _⟩ := reach_good hw hr hnf
  have := (hcore q hq).begun_lt_next b hb c (by rw [hnext]; exact List.mem_cons_self)
  exact TT.time_mono (TT.le_of_lt this)

theorem reachP_pushRef {cfg : Cfg} (hw : WFCfg cfg) (hsh : WFShape cfg) {rank : Sid → Nat} (hfl : Flat cfg rank) (hpo : PushOk cfg)
    {src q : Sid} {pe : Port × Sid × TI × Port} (hq : q < cfg.n)
    (hkey : (cfg.sim src).push.filter (hits q (keyOf src pe) src) = [pe]) (hpull : (cfg.sim q).pulled = [])
    {s : State} (hr : ReachP cfg s) : s.failed = none → PushRef cfg src q pe s := by
  induction hr with
  | init =>
    intro _
    refine ⟨⟨?_, ?_⟩, rfl, ?_, rfl, ?_⟩
    · simp [initState, initSim, BufSorted]
    · intro x hx; simp [initState, initSim] at hx
    · simp [chist, pushHist, initState]
    · intro d0 hd0
      simp only [initState, initSim, chist, pushHist, List.filter_nil, lastVal_nil]
      exact hd0
  | @step s s' a hr hstep hm hn ih =>
    intro hnf
    have hf0 : s.failed = none := by
      cases hf : s.failed with
      | none => rfl
      | some e =>
        have := step_none_of_failed (cfg := cfg) (s := s) (by simp [hf]) a
        rw [this] at hstep
        cases hstep
    exact step_pushRef (ih hf0) hstep hnf hkey hpull hm hn (begun_le_next hw hr.reach hf0 hq)
      (reach_bufOk hw hsh hfl hpo (Reach.step hr.reach hstep) hnf q hq)

/-- **push path refines the history** (flat configurations, no cached connection into `q`): when a step of `q` begins, the
step request carries under the key of the pushed connection `pe` from `src`
* the last value produced on the connection that became due since `q`'s previous step, if there is one — every produced
  value leaves the buffer with the first step at or after its due time, and only then;
* for a persistent connection: the last value `src` produced whose due time (output time + shift) is at or before the step
  time, and the declared initial value as long as there is none. -/
theorem begin_push_refines_spec {cfg : Cfg} (hw : WFCfg cfg) (hsh : WFShape cfg) {rank : Sid → Nat} (hfl : Flat cfg rank)
    (hpo : PushOk cfg) {src q : Sid} {pe : Port × Sid × TI × Port} (hq : q < cfg.n)
    (hkey : (cfg.sim src).push.filter (hits q (keyOf src pe) src) = [pe]) (hpull : (cfg.sim q).pulled = [])
    {s s' : State} (hr : ReachP cfg s) (hnf0 : s.failed = none) (h : step cfg s (.deps q) = some s') (hnf : s'.failed = none) :
    ∃ c inp m, s'.log = .begin q c inp m :: s.log ∧
      InputData.get? inp (keyOf src pe) =
        (match ((chist src pe s.log).filter (fun x => after (lastBegun (s.sims q)) x.1 && decide (x.1 ≤ TT.time c))).getLast? with
          | some x => some x.2
          | none => InputData.get? (s.sims q).persistent (keyOf src pe)) ∧
      ∀ d0, InputData.get? (cfg.sim q).persistent0 (keyOf src pe) = some d0 →
        InputData.get? inp (keyOf src pe) = some (lastVal ((chist src pe s.log).filter (fun x => decide (x.1 ≤ TT.time c))) d0) := by
  have href := reachP_pushRef hw hsh hfl hpo hq hkey hpull hr hnf0
  simp only [step, stepDeps] at h
  split at h
  · cases hpc : (s.sims q).pc with
    | waitDeps t =>
      simp only [hpc] at h
      split at h
      · cases hnext : (s.sims q).next with
        | nil => simp [hnext] at h
        | cons c rest =>
          simp only [hnext, Option.some.injEq] at h
          subst h
          have hT : ∀ t, lastBegun (s.sims q) = some t → t ≤ TT.time c := by
            intro t ht
            unfold lastBegun at ht
            cases hb : (s.sims q).begun with
            | nil => rw [hb] at ht; cases ht
            | cons b bs =>
              rw [hb] at ht
              simp only [List.head?_cons, Option.map_some, Option.some.injEq] at ht
              rw [← ht]
              exact begun_le_next hw hr.reach hnf0 hq c rest hnext b (by rw [hb]; exact List.mem_cons_self)
          obtain ⟨_, inp, m, hlog, hv, hvp⟩ := pushRef_begin href hpull c rest hnf0 hnf hT
          exact ⟨c, inp, m, hlog, hv, hvp⟩
      · cases h
    | init => simp [hpc] at h
    | awaitSettle a dl => simp [hpc] at h
    | inStep => simp [hpc] at h
    | inGet => simp [hpc] at h
    | done => simp [hpc] at h
  · cases h

/-! ### executable form of the run hypotheses -/

def monoActPB (s : State) : Action → Bool
  | .dataReply p d => match (s.sims p).cur with
    | some c => (gotTimes p s.log).all (fun t => decide ((t : Int) ≤ (outTimeOf c d).1))
    | none => true
  | _ => true

def noSetDataB : Action → Bool
  | .setData .. => false
  | _ => true

theorem monoActPB_sound {s : State} {a : Action} (h : monoActPB s a = true) : MonoActP s a := by
  intro p d c ha hcur t ht
  subst ha
  simp only [monoActPB, hcur, List.all_eq_true, decide_eq_true_eq] at h
  exact h t ht

theorem noSetDataB_sound {a : Action} (h : noSetDataB a = true) : NoSetData a := by
  intro p t e ha
  subst ha
  cases h

def runPB (cfg : Cfg) : State → List Action → Bool
  | _, [] => true
  | s, a :: as => monoActPB s a && noSetDataB a && match step cfg s a with
    | some s' => runPB cfg s' as
    | none => true

theorem exec_reachP {cfg : Cfg} : ∀ (as : List Action) {s s' : State}, ReachP cfg s → exec cfg s as = some s' →
    runPB cfg s as = true → ReachP cfg s'
  | [], s, s', hr, he, _ => by
    simp only [exec, Option.some.injEq] at he
    subst he; exact hr
  | a :: as, s, s', hr, he, hm => by
    simp only [exec] at he
    simp only [runPB, Bool.and_eq_true] at hm
    cases hs : step cfg s a with
    | none => rw [hs] at he; cases he
    | some s1 =>
      rw [hs] at he
      simp only [hs] at hm
      exact exec_reachP as (ReachP.step hr hs (monoActPB_sound hm.1.1) (noSetDataB_sound hm.1.2)) he hm.2

end Mosaik
