/-
Refinement of the push path to the output history (C03, pushed connections — all connections when `cache=False`).

For one pushed connection `pe` from `src` to `q` (key `k`), `pushHist` is the list of values `src` has produced on the
connection's source port, with their due times (output time + shift), oldest first, read off the run's log.

`reachP_pushRef`: in every reachable state of a flat configuration
* the values of that connection waiting in `q`'s timed input buffer are exactly the produced values that were not yet
  due at `q`'s last step, in production order — nothing lost, nothing duplicated, nothing invented (`PushRef.buf`)
* for a persistent connection the remembered value is the last produced value that was due at `q`'s last step, or the
  declared initial value (`PushRef.pers`)
Consequently the step request of `q` for time `c` carries the last produced value due at or before `c`
(`begin_push_refines_spec`).

Hypotheses: the scheduler hypotheses of `no_late_arrival` (flat configuration); the key of the connection is used by no
other connection into `q` (`KeyOnce`); reported output times do not go back (`MonoActP`, the complement of the known
finding about non-monotone output times).
-/
import MosaikProofs.Sched.CacheRef
namespace Mosaik

/-! ### one connection's view of a buffer -/

/-- the (due time, value) pairs of the entries with key `k`, in buffer order -/
def keyView (k : InKey) (buf : List BufEntry) : List (Nat × Val) :=
  (buf.filter (fun b => b.key == k)).map (fun b => (b.time, b.val))

theorem keyView_cons (k : InKey) (b : BufEntry) (l : List BufEntry) :
    keyView k (b :: l) = if b.key == k then (b.time, b.val) :: keyView k l else keyView k l := by
  unfold keyView
  simp only [List.filter_cons]
  split <;> simp

theorem keyView_insert_other (k : InKey) (e : BufEntry) (h : e.key ≠ k) : ∀ l : List BufEntry, keyView k (insertBuf e l) = keyView k l
  | [] => by simp [insertBuf, keyView, h]
  | y :: ys => by
    unfold insertBuf
    have he : (e.key == k) = false := by simp [h]
    split
    · rw [keyView_cons, he]; simp
    · rw [keyView_cons, keyView_cons, keyView_insert_other k e h ys]

/-- the buffer is in due-time order -/
def BufSorted (l : List BufEntry) : Prop := l.Pairwise (fun a b => a.time ≤ b.time)

theorem bufSorted_insert (e : BufEntry) : ∀ l : List BufEntry, BufSorted l → BufSorted (insertBuf e l)
  | [], _ => by simp [insertBuf, BufSorted]
  | y :: ys, hs => by
    unfold BufSorted at hs
    have hy := (List.pairwise_cons.mp hs).1
    have hys := (List.pairwise_cons.mp hs).2
    unfold insertBuf
    split
    · rename_i hlt
      unfold BufSorted
      refine List.pairwise_cons.mpr ⟨?_, hs⟩
      intro x hx
      rcases List.mem_cons.mp hx with rfl | hx
      · omega
      · have := hy x hx; omega
    · rename_i hlt
      unfold BufSorted
      refine List.pairwise_cons.mpr ⟨?_, bufSorted_insert e ys hys⟩
      intro x hx
      rcases (mem_insertBuf e ys x).mp hx with rfl | hx
      · omega
      · exact hy x hx

theorem keyView_nil_of_no_key (k : InKey) : ∀ l : List BufEntry, (∀ x ∈ l, x.key ≠ k) → keyView k l = []
  | [], _ => rfl
  | y :: ys, h => by
    rw [keyView_cons]
    have : (y.key == k) = false := by simp [h y List.mem_cons_self]
    rw [this]
    exact keyView_nil_of_no_key k ys (fun x hx => h x (List.mem_cons_of_mem _ hx))

/-- an entry that is not earlier than any entry of its key, and newer by counter than everything, goes behind all
entries of its key -/
theorem keyView_insert_same (k : InKey) (e : BufEntry) (h : e.key = k) : ∀ l : List BufEntry, BufSorted l →
    (∀ x ∈ l, x.key = k → x.time ≤ e.time) → (∀ x ∈ l, x.ctr < e.ctr) →
    keyView k (insertBuf e l) = keyView k l ++ [(e.time, e.val)]
  | [], _, _, _ => by simp [insertBuf, keyView, h]
  | y :: ys, hs, ht, hc => by
    unfold BufSorted at hs
    have hy := (List.pairwise_cons.mp hs).1
    have hys := (List.pairwise_cons.mp hs).2
    have he : (e.key == k) = true := by simp [h]
    unfold insertBuf
    split
    · rename_i hlt
      have hcy := hc y List.mem_cons_self
      have hlt' : e.time < y.time := by omega
      -- everything in the buffer is due after `e`, so nothing in it has key `k`
      have hnone : ∀ x ∈ y :: ys, x.key ≠ k := by
        intro x hx hk
        have h1 := ht x hx hk
        rcases List.mem_cons.mp hx with rfl | hx'
        · omega
        · have := hy x hx'; omega
      rw [keyView_cons, he, keyView_nil_of_no_key k _ hnone]
      simp
    · rw [keyView_cons, keyView_cons]
      have ih := keyView_insert_same k e h ys hys (fun x hx => ht x (List.mem_cons_of_mem _ hx))
        (fun x hx => hc x (List.mem_cons_of_mem _ hx))
      rw [ih]
      split <;> simp

theorem keyView_filter (k : InKey) (f : BufEntry → Bool) (g : Nat × Val → Bool) (hfg : ∀ b : BufEntry, f b = g (b.time, b.val)) :
    ∀ l : List BufEntry, keyView k (l.filter f) = (keyView k l).filter g
  | [] => rfl
  | b :: l => by
    have ih := keyView_filter k f g hfg l
    by_cases hf : f b = true
    · rw [List.filter_cons_of_pos hf, keyView_cons, keyView_cons]
      by_cases hk : (b.key == k) = true
      · have hg : g (b.time, b.val) = true := by rw [← hfg]; exact hf
        rw [if_pos hk, if_pos hk, List.filter_cons_of_pos hg, ih]
      · rw [if_neg hk, if_neg hk, ih]
    · rw [List.filter_cons_of_neg hf, keyView_cons]
      by_cases hk : (b.key == k) = true
      · have hg : ¬ g (b.time, b.val) = true := by rw [← hfg]; exact hf
        rw [if_pos hk, List.filter_cons_of_neg hg, ih]
      · rw [if_neg hk, ih]

theorem mem_keyView {k : InKey} {l : List BufEntry} {x : BufEntry} (hx : x ∈ l) (hk : x.key = k) : (x.time, x.val) ∈ keyView k l := by
  unfold keyView
  rw [List.mem_map]
  exact ⟨x, List.mem_filter.mpr ⟨hx, by simp [hk]⟩, rfl⟩

/-! ### the produced values of one connection, read off the log -/

/-- values `src` produced on `sport` with their due times over a connection of shift `sh`, oldest first -/
def pushHist (src : Sid) (sport : Port) (sh : Nat) : List Event → List (Nat × Val)
  | [] => []
  | .got p _ outTT data :: l =>
    if p = src then
      match OutData.get? data sport with
      | some v => pushHist src sport sh l ++ [(TT.time outTT + sh, v)]
      | none => pushHist src sport sh l
    else pushHist src sport sh l
  | .begin .. :: l => pushHist src sport sh l
  | .stepped .. :: l => pushHist src sport sh l
  | .finished .. :: l => pushHist src sport sh l
  | .done .. :: l => pushHist src sport sh l
  | .rtWarn .. :: l => pushHist src sport sh l
  | .eventIgnored .. :: l => pushHist src sport sh l

/-- the output times `p` has reported so far -/
def gotTimes (p : Sid) : List Event → List Nat
  | [] => []
  | .got p' _ outTT _ :: l => if p' = p then TT.time outTT :: gotTimes p l else gotTimes p l
  | .begin .. :: l => gotTimes p l
  | .stepped .. :: l => gotTimes p l
  | .finished .. :: l => gotTimes p l
  | .done .. :: l => gotTimes p l
  | .rtWarn .. :: l => gotTimes p l
  | .eventIgnored .. :: l => gotTimes p l

theorem pushHist_cons_noGot (src : Sid) (sport : Port) (sh : Nat) (e : Event) (l : List Event) (h : e.isGot = false) :
    pushHist src sport sh (e :: l) = pushHist src sport sh l := by
  cases e <;> first | rfl | (simp [Event.isGot] at h)

theorem gotTimes_cons_noGot (p : Sid) (e : Event) (l : List Event) (h : e.isGot = false) : gotTimes p (e :: l) = gotTimes p l := by
  cases e <;> first | rfl | (simp [Event.isGot] at h)

theorem LogExt.pushHist {s s' : State} (h : LogExt s s') (src : Sid) (sport : Port) (sh : Nat) :
    Mosaik.pushHist src sport sh s'.log = Mosaik.pushHist src sport sh s.log := by
  obtain ⟨pre, he, hn⟩ := h
  rw [he]
  clear he
  induction pre with
  | nil => rfl
  | cons e pre ih =>
    rw [List.cons_append, pushHist_cons_noGot src sport sh e _ (hn e List.mem_cons_self)]
    exact ih (fun e' he' => hn e' (List.mem_cons_of_mem _ he'))

theorem LogExt.gotTimes {s s' : State} (h : LogExt s s') (p : Sid) : Mosaik.gotTimes p s'.log = Mosaik.gotTimes p s.log := by
  obtain ⟨pre, he, hn⟩ := h
  rw [he]
  clear he
  induction pre with
  | nil => rfl
  | cons e pre ih =>
    rw [List.cons_append, gotTimes_cons_noGot p e _ (hn e List.mem_cons_self)]
    exact ih (fun e' he' => hn e' (List.mem_cons_of_mem _ he'))

/-- every due time in the history is a reported output time plus the shift -/
theorem pushHist_due (src : Sid) (sport : Port) (sh : Nat) : ∀ (log : List Event) (x : Nat × Val), x ∈ pushHist src sport sh log →
    ∃ t ∈ gotTimes src log, x.1 = t + sh
  | [], x, h => by simp [pushHist] at h
  | e :: l, x, h => by
    cases e with
    | got p c outTT data =>
      simp only [pushHist, gotTimes] at h ⊢
      by_cases hp : p = src
      · simp only [hp, if_true] at h ⊢
        cases hg : OutData.get? data sport with
        | none =>
          rw [hg] at h
          obtain ⟨t, ht, hx⟩ := pushHist_due src sport sh l x h
          exact ⟨t, List.mem_cons_of_mem _ ht, hx⟩
        | some v =>
          rw [hg] at h
          rcases List.mem_append.mp h with h | h
          · obtain ⟨t, ht, hx⟩ := pushHist_due src sport sh l x h
            exact ⟨t, List.mem_cons_of_mem _ ht, hx⟩
          · simp only [List.mem_singleton] at h
            exact ⟨TT.time outTT, List.mem_cons_self, by rw [h]⟩
      · simp only [hp, if_false] at h ⊢
        exact pushHist_due src sport sh l x h
    | begin => exact pushHist_due src sport sh l x h
    | stepped => exact pushHist_due src sport sh l x h
    | finished => exact pushHist_due src sport sh l x h
    | done => exact pushHist_due src sport sh l x h
    | rtWarn => exact pushHist_due src sport sh l x h
    | eventIgnored => exact pushHist_due src sport sh l x h

/-- the last value of a history, a default if it is empty -/
def lastVal (l : List (Nat × Val)) (d : Val) : Val :=
  match l.getLast? with
  | some x => x.2
  | none => d

theorem lastVal_append_single (l : List (Nat × Val)) (x : Nat × Val) (d : Val) : lastVal (l ++ [x]) d = x.2 := by
  simp [lastVal]

theorem lastVal_nil (d : Val) : lastVal [] d = d := rfl

/-! ### `get_outputs` pushing into one destination, seen through one key -/

/-- the body of the push loop of `get_outputs` -/
def pushOne (p : Sid) (ot : Int) (d : DataReply) (st : State) (e : Port × Sid × TI × Port) : State :=
  match OutData.get? d.data e.1 with
  | .none => st
  | some v => st.upd e.2.1 fun y =>
      { y with buffer := insertBuf { time := ot.toNat + tier e.2.2.1.tiers 0, ctr := y.ctr,
                                     key := { eid := e.2.2.2.1, attr := e.2.2.2.2, ssid := p, seid := e.1.1 }, val := v } y.buffer,
               ctr := y.ctr + 1 }

theorem storeOutputs_eq (cfg : Cfg) (s1 : State) (p : Sid) (ot : Int) (d : DataReply) :
    storeOutputs cfg s1 p ot d =
      ((cfg.sim p).push.foldl (pushOne p ot d) (if cfg.useCache then s1.upd p fun x =>
        { x with outputs := if x.outputs.any (·.1 == ot) then x.outputs.map (fun e => if e.1 == ot then (ot, d.data) else e)
                            else x.outputs ++ [(ot, d.data)] } else s1)).upd p fun x => { x with data := d.data } := rfl

/-- the input key a pushed connection of `p` writes -/
def keyOf (p : Sid) (e : Port × Sid × TI × Port) : InKey := { eid := e.2.2.2.1, attr := e.2.2.2.2, ssid := p, seid := e.1.1 }

/-- the connection goes to `q` and writes key `k` -/
def hits (q : Sid) (k : InKey) (p : Sid) (e : Port × Sid × TI × Port) : Bool := e.2.1 == q && keyOf p e == k

def entryOf (ot : Int) (d : DataReply) (e : Port × Sid × TI × Port) : List (Nat × Val) :=
  match OutData.get? d.data e.1 with
  | some v => [(ot.toNat + tier e.2.2.1.tiers 0, v)]
  | .none => []

/-- buffer in due order, counters below the simulator's counter -/
def QOk (st : State) (q : Sid) : Prop :=
  BufSorted (st.sims q).buffer ∧ ∀ x ∈ (st.sims q).buffer, x.ctr < (st.sims q).ctr

theorem pushFold_q (q : Sid) (k : InKey) (p : Sid) (ot : Int) (d : DataReply) :
    ∀ (l : List (Port × Sid × TI × Port)) (st : State), (l.filter (hits q k p)).length ≤ 1 → QOk st q →
      (∀ e ∈ l, hits q k p e = true → ∀ x ∈ (st.sims q).buffer, x.key = k → x.time ≤ ot.toNat + tier e.2.2.1.tiers 0) →
      QOk (l.foldl (pushOne p ot d) st) q ∧
      keyView k ((l.foldl (pushOne p ot d) st).sims q).buffer = keyView k (st.sims q).buffer ++ (l.filter (hits q k p)).flatMap (entryOf ot d) ∧
      ((l.foldl (pushOne p ot d) st).sims q).persistent = (st.sims q).persistent ∧
      ((l.foldl (pushOne p ot d) st).sims q).begun = (st.sims q).begun
  | [], st, _, hok, _ => by simp [hok]
  | e :: l, st, hlen, hok, hmono => by
    simp only [List.foldl_cons]
    -- the state after this connection
    by_cases hq : e.2.1 = q
    · cases hg : OutData.get? d.data e.1 with
      | none =>
        have hst : pushOne p ot d st e = st := by simp [pushOne, hg]
        rw [hst]
        have hlen' : (l.filter (hits q k p)).length ≤ 1 := by
          rw [List.filter_cons] at hlen
          split at hlen
          · simp only [List.length_cons] at hlen; omega
          · exact hlen
        obtain ⟨h1, h2, h3, h4⟩ := pushFold_q q k p ot d l st hlen' hok (fun e' he' => hmono e' (List.mem_cons_of_mem _ he'))
        refine ⟨h1, ?_, h3, h4⟩
        rw [h2, List.filter_cons]
        split
        · simp [entryOf, hg]
        · rfl
      | some v =>
        have hbuf : ((pushOne p ot d st e).sims q).buffer =
            insertBuf { time := ot.toNat + tier e.2.2.1.tiers 0, ctr := (st.sims q).ctr, key := keyOf p e, val := v } (st.sims q).buffer := by
          simp [pushOne, hg, hq, keyOf]
        have hctr : ((pushOne p ot d st e).sims q).ctr = (st.sims q).ctr + 1 := by simp [pushOne, hg, hq]
        have hpers : ((pushOne p ot d st e).sims q).persistent = (st.sims q).persistent := by simp [pushOne, hg, hq]
        have hbeg : ((pushOne p ot d st e).sims q).begun = (st.sims q).begun := by simp [pushOne, hg, hq]
        have hok' : QOk (pushOne p ot d st e) q := by
          refine ⟨by rw [hbuf]; exact bufSorted_insert _ _ hok.1, ?_⟩
          intro x hx
          rw [hbuf] at hx
          rw [hctr]
          rcases (mem_insertBuf _ _ x).mp hx with rfl | hx
          · simp
          · have := hok.2 x hx; omega
        by_cases hk : keyOf p e = k
        · -- the one connection that writes `k`
          have hhit : hits q k p e = true := by simp [hits, hq, hk]
          have hrest : l.filter (hits q k p) = [] := by
            rw [List.filter_cons, if_pos hhit] at hlen
            simp only [List.length_cons] at hlen
            exact List.eq_nil_of_length_eq_zero (by omega)
          obtain ⟨h1, h2, h3, h4⟩ := pushFold_q q k p ot d l (pushOne p ot d st e) (by rw [hrest]; simp) hok' (by
            intro e' he' hh
            have : e' ∈ l.filter (hits q k p) := List.mem_filter.mpr ⟨he', hh⟩
            rw [hrest] at this
            cases this)
          refine ⟨h1, ?_, by rw [h3, hpers], by rw [h4, hbeg]⟩
          rw [h2, hbuf, List.filter_cons, if_pos hhit, hrest]
          have hins := keyView_insert_same k { time := ot.toNat + tier e.2.2.1.tiers 0, ctr := (st.sims q).ctr, key := keyOf p e, val := v } hk
            (st.sims q).buffer hok.1 (fun x hx hxk => hmono e List.mem_cons_self hhit x hx hxk) (fun x hx => hok.2 x hx)
          rw [hins]
          simp [entryOf, hg]
        · have hhit : hits q k p e = false := by simp [hits, hk]
          have hlen' : (l.filter (hits q k p)).length ≤ 1 := by
            rw [List.filter_cons, hhit] at hlen; simpa using hlen
          obtain ⟨h1, h2, h3, h4⟩ := pushFold_q q k p ot d l (pushOne p ot d st e) hlen' hok' (by
            intro e' he' hh x hx hxk
            rw [hbuf] at hx
            rcases (mem_insertBuf _ _ x).mp hx with rfl | hx
            · exact absurd hxk hk
            · exact hmono e' (List.mem_cons_of_mem _ he') hh x hx hxk)
          refine ⟨h1, ?_, by rw [h3, hpers], by rw [h4, hbeg]⟩
          rw [h2, hbuf, keyView_insert_other k _ hk, List.filter_cons, hhit]
          simp
    · -- another destination
      have hsim : (pushOne p ot d st e).sims q = st.sims q := by
        unfold pushOne
        split
        · rfl
        · exact State.upd_other _ _ (fun h => hq h.symm)
      have hhit : hits q k p e = false := by simp [hits, hq]
      have hlen' : (l.filter (hits q k p)).length ≤ 1 := by
        rw [List.filter_cons, hhit] at hlen; simpa using hlen
      obtain ⟨h1, h2, h3, h4⟩ := pushFold_q q k p ot d l (pushOne p ot d st e) hlen' (by unfold QOk; rw [hsim]; exact hok) (by
        intro e' he' hh x hx hxk
        rw [hsim] at hx
        exact hmono e' (List.mem_cons_of_mem _ he') hh x hx hxk)
      refine ⟨h1, ?_, by rw [h3, hsim], by rw [h4, hsim]⟩
      rw [h2, hsim, List.filter_cons, hhit]
      simp

/-! ### blocks that leave buffers, counters, remembered values, begun steps and `set_data` inputs alone -/

def SimSt.pf (x : SimSt) : List BufEntry × Nat × InputData × List TT × InputData := (x.buffer, x.ctr, x.persistent, x.begun, x.setData)

/-- no simulator's data-flow fields change and the log grows by non-`get_data` events only -/
structure PFEq (s s' : State) : Prop where
  pf : ∀ q, (s'.sims q).pf = (s.sims q).pf
  log : LogExt s s'

theorem PFEq.refl (s : State) : PFEq s s := ⟨fun _ => rfl, LogExt.refl s⟩
theorem PFEq.trans {s s' s'' : State} (h1 : PFEq s s') (h2 : PFEq s' s'') : PFEq s s'' :=
  ⟨fun q => (h2.pf q).trans (h1.pf q), h1.log.trans h2.log⟩
theorem pfEq_upd (s : State) (p : Sid) (f : SimSt → SimSt) (hf : ∀ x, (f x).pf = x.pf) : PFEq s (s.upd p f) :=
  ⟨fun q => by rw [State.upd_sims]; split; exact hf _; rfl, logExt_upd s p f⟩
theorem pfEq_emit (s : State) (e : Event) (h : e.isGot = false) : PFEq s (s.emit e) := ⟨fun _ => rfl, logExt_emit s e h⟩
theorem pfEq_fail (s : State) (e : SchedErr) : PFEq s (s.fail e) := ⟨fun q => by rw [State.fail_sims], logExt_fail s e⟩

theorem advance_pfEq (cfg : Cfg) (s : State) (q : Sid) : PFEq s (advance cfg s q) := by
  unfold advance; simp only
  split
  · exact pfEq_fail _ _
  · exact pfEq_upd _ _ _ (fun _ => rfl)

theorem advanceAll_pfEq (cfg : Cfg) (s : State) : PFEq s (advanceAll cfg s) := by
  unfold advanceAll
  apply foldl_inv (fun st => PFEq s st)
  · exact PFEq.refl s
  · intro st p _ h; split
    · exact h
    · exact h.trans (advance_pfEq cfg st p)

theorem settle_pfEq (cfg : Cfg) (s : State) (p : Sid) : PFEq s (settle cfg s p) := by
  unfold settle; simp only
  split
  · refine PFEq.trans ?_ (pfEq_emit _ _ rfl)
    exact pfEq_upd _ _ _ (fun _ => rfl)
  · split
    · split
      · exact pfEq_upd _ _ _ (fun _ => rfl)
      · exact pfEq_upd _ _ _ (fun _ => rfl)
    · exact pfEq_upd _ _ _ (fun _ => rfl)

theorem schedule_pfEq (s : State) (q : Sid) (t : TT) : PFEq s (schedule s q t) := by
  unfold schedule; simp only
  split
  · exact PFEq.refl s
  · exact pfEq_upd _ _ _ (fun _ => rfl)

theorem notify_pfEq (cfg : Cfg) (s : State) (p : Sid) : PFEq s (notify cfg s p) := by
  unfold notify
  apply foldl_inv (fun st => PFEq s st)
  · exact PFEq.refl s
  · intro st tr _ h; split
    · exact h.trans (schedule_pfEq _ _ _)
    · exact h

theorem prune_pfEq (cfg : Cfg) (s : State) : PFEq s (prune cfg s) :=
  ⟨fun q => by unfold prune; simp only; split <;> rfl, prune_logExt cfg s⟩

theorem clearCur_pfEq (s : State) (p : Sid) (c : TT) : PFEq s (clearCur s p c) := by
  unfold clearCur
  refine PFEq.trans ?_ (pfEq_emit _ _ rfl)
  exact pfEq_upd _ _ _ (fun _ => rfl)

theorem rtCheck_pfEq (cfg : Cfg) (s : State) (p : Sid) (c : TT) : PFEq s (rtCheck cfg s p c) :=
  ⟨fun q => by rw [rtCheck_sims], rtCheck_logExt cfg s p c⟩

theorem finish_pfEq (cfg : Cfg) (s : State) (p : Sid) (c : TT) : PFEq s (finish cfg s p c) := by
  have h3 : PFEq s (advanceAll cfg (notify cfg (clearCur s p c) p)) :=
    ((clearCur_pfEq s p c).trans (notify_pfEq cfg _ p)).trans (advanceAll_pfEq cfg _)
  unfold finish; simp only
  split
  · exact h3
  · split
    · exact (h3.trans (prune_pfEq cfg _)).trans (settle_pfEq cfg _ p)
    · exact h3.trans (settle_pfEq cfg _ p)

theorem afterStep_pfEq (cfg : Cfg) (s : State) (p : Sid) (c : TT) : PFEq s (afterStep cfg s p c) := by
  have h3 := rtCheck_pfEq cfg s p c
  unfold afterStep; simp only
  split
  · exact h3
  · split
    · exact h3.trans (finish_pfEq cfg _ p c)
    · exact h3.trans (pfEq_upd _ _ _ (fun _ => rfl))

end Mosaik
