/-
Progress is up to date whenever no step is in flight (used for deadlock freedom, C05).

`advance_progress` is called for every simulator at the end of every step, and for the simulator
itself when its process starts.  Consequently, in every reachable state in which no simulator is
inside `step`/`get_data`, the progress of every started simulator *equals* the value
`advance_progress` would compute now (`reach_upToDate`): the minimum of the end of the simulation,
its own earliest scheduled step and, for every triggering ancestor, that ancestor's earliest
scheduled step delayed by the minimal trigger-path delay.
-/
import MosaikProofs.Sched.Await
namespace Mosaik

theorem candidates_congr {cfg : Cfg} (hw : WFCfg cfg) {s s' : State}
    (h : ∀ x, (s'.sims x).cur = (s.sims x).cur ∧ (s'.sims x).next = (s.sims x).next) (q : Sid) :
    candidates cfg s' q = candidates cfg s q := by
  unfold candidates
  rw [rtCap_nil hw, rtCap_nil hw, (h q).1, (h q).2]
  have : ∀ x, front (s'.sims x) = front (s.sims x) := by
    intro x; unfold front; rw [(h x).1, (h x).2]
  simp only [this]

theorem newProgress_congr {cfg : Cfg} (hw : WFCfg cfg) {s s' : State}
    (h : ∀ x, (s'.sims x).cur = (s.sims x).cur ∧ (s'.sims x).next = (s.sims x).next) (q : Sid) :
    newProgress cfg s' q = newProgress cfg s q := by
  unfold newProgress; rw [candidates_congr hw h]

/-- `advance_progress` that does not hit the assert sets the progress to the computed value -/
theorem advance_nf {cfg : Cfg} {s : State} {q : Sid} (hnf : (advance cfg s q).failed = none) :
    advance cfg s q = s.upd q (fun x => { x with progress := newProgress cfg s q }) := by
  unfold advance at hnf ⊢
  simp only at hnf ⊢
  split
  · rename_i h
    simp only [h, if_true] at hnf
    have := State.fail_failed s (.progressBackwards q)
    rw [hnf] at this; cases this
  · rfl

theorem foldl_failed_stays (cfg : Cfg) : ∀ (l : List Sid) (st : State), st.failed.isSome = true →
    l.foldl (fun st q => if st.failed.isSome then st else advance cfg st q) st = st
  | [], _, _ => rfl
  | a :: l, st, h => by
    simp only [List.foldl_cons, h, if_true]
    exact foldl_failed_stays cfg l st h

theorem advanceList_progress {cfg : Cfg} (hw : WFCfg cfg) (s : State) : ∀ (l : List Sid) (st : State), l.Nodup →
    (∀ x, (st.sims x).cur = (s.sims x).cur ∧ (st.sims x).next = (s.sims x).next) →
    (l.foldl (fun st q => if st.failed.isSome then st else advance cfg st q) st).failed = none →
    (∀ q ∈ l, ((l.foldl (fun st q => if st.failed.isSome then st else advance cfg st q) st).sims q).progress = newProgress cfg s q) ∧
    (∀ q, q ∉ l → ((l.foldl (fun st q => if st.failed.isSome then st else advance cfg st q) st).sims q).progress = (st.sims q).progress)
  | [], st, _, _, _ => ⟨fun _ h => (by cases h), fun _ _ => rfl⟩
  | a :: l, st, hnd, hsame, hnf => by
    simp only [List.foldl_cons] at hnf ⊢
    have hst : st.failed.isSome = false := by
      cases hf : st.failed.isSome with
      | false => rfl
      | true =>
        simp only [hf, if_true] at hnf
        rw [foldl_failed_stays cfg l st hf] at hnf
        rw [hnf] at hf; cases hf
    simp only [hst, Bool.false_eq_true, if_false] at hnf ⊢
    have ha : (advance cfg st a).failed = none := by
      cases hf : (advance cfg st a).failed.isSome with
      | false => cases h : (advance cfg st a).failed with
        | none => rfl
        | some e => rw [h] at hf; cases hf
      | true =>
        rw [foldl_failed_stays cfg l _ hf] at hnf
        exact hnf
    have heq := advance_nf ha
    have hsame1 : ∀ x, ((advance cfg st a).sims x).cur = (s.sims x).cur ∧ ((advance cfg st a).sims x).next = (s.sims x).next := by
      intro x; rw [advance_cur, advance_next]; exact hsame x
    have hnd' := List.nodup_cons.mp hnd
    obtain ⟨ih1, ih2⟩ := advanceList_progress hw s l (advance cfg st a) hnd'.2 hsame1 hnf
    constructor
    · intro q hq
      rcases List.mem_cons.mp hq with rfl | hq
      · rw [ih2 q hnd'.1, heq, State.upd_same]
        simp only
        exact newProgress_congr hw hsame q
      · exact ih1 q hq
    · intro q hq
      have hqa : q ≠ a := fun h => hq (h ▸ List.mem_cons_self)
      have hql : q ∉ l := fun h => hq (List.mem_cons_of_mem _ h)
      rw [ih2 q hql, heq, State.upd_other _ _ hqa]

theorem advanceAll_progress {cfg : Cfg} (hw : WFCfg cfg) {s : State} (hnf : (advanceAll cfg s).failed = none) :
    ∀ q, q < cfg.n → ((advanceAll cfg s).sims q).progress = newProgress cfg s q := by
  intro q hq
  unfold advanceAll at hnf ⊢
  exact (advanceList_progress hw s (List.range cfg.n) s List.nodup_range (fun _ => ⟨rfl, rfl⟩) hnf).1 q (List.mem_range.mpr hq)

theorem settle_progress (cfg : Cfg) (s : State) (p : Sid) : ∀ a, ((settle cfg s p).sims a).progress = (s.sims a).progress := by
  intro a
  unfold settle
  simp only
  have key : ∀ pc : PC, ((s.upd p fun x => { x with pc := pc }).sims a).progress = (s.sims a).progress := by
    intro pc; rw [State.upd_sims]; split <;> rfl
  split
  · exact key _
  · split
    · split
      · exact key _
      · exact key _
    · exact key _

/-- after the block that ends a step, every simulator's progress is the computed value -/
theorem finish_progress {cfg : Cfg} (hw : WFCfg cfg) {s : State} (p : Sid) (c : TT) (hnf : (finish cfg s p c).failed = none) :
    ∀ q, q < cfg.n → ((finish cfg s p c).sims q).progress = newProgress cfg (finish cfg s p c) q := by
  intro q hq
  have hsame : ∀ x, ((finish cfg s p c).sims x).cur = ((notify cfg (clearCur s p c) p).sims x).cur ∧
      ((finish cfg s p c).sims x).next = ((notify cfg (clearCur s p c) p).sims x).next := by
    intro x
    unfold finish
    simp only
    split
    · rw [advanceAll_cur, advanceAll_next]; exact ⟨rfl, rfl⟩
    · split
      · rw [settle_cur, settle_next, ((prune_ctrlEq cfg _).fields x).2.2.2.1, ((prune_ctrlEq cfg _).fields x).2.2.1,
          advanceAll_cur, advanceAll_next]; exact ⟨rfl, rfl⟩
      · rw [settle_cur, settle_next, advanceAll_cur, advanceAll_next]; exact ⟨rfl, rfl⟩
  rw [newProgress_congr hw hsame q]
  unfold finish at hnf ⊢
  simp only at hnf ⊢
  split
  · rename_i hfail
    simp only [hfail, if_true] at hnf
    rw [hnf] at hfail; cases hfail
  · rename_i hfail
    have h3 : (advanceAll cfg (notify cfg (clearCur s p c) p)).failed = none := by
      cases h : (advanceAll cfg (notify cfg (clearCur s p c) p)).failed with
      | none => rfl
      | some e => rw [h] at hfail; simp at hfail
    split
    · rw [settle_progress, ((prune_ctrlEq cfg _).fields q).2.1]; exact advanceAll_progress hw h3 q hq
    · rw [settle_progress]; exact advanceAll_progress hw h3 q hq

/-! ### the invariant -/

/-- no simulator is inside `step` / `get_data` -/
def Idle (cfg : Cfg) (s : State) : Prop := ∀ q, q < cfg.n → (s.sims q).pc ≠ .inStep ∧ (s.sims q).pc ≠ .inGet

def UpToDate (cfg : Cfg) (s : State) : Prop :=
  Idle cfg s → ∀ q, q < cfg.n → (s.sims q).pc ≠ .init → (s.sims q).progress = newProgress cfg s q

theorem settle_other (cfg : Cfg) (s : State) (p : Sid) {q : Sid} (hqp : q ≠ p) : (settle cfg s p).sims q = s.sims q := by
  unfold settle
  simp only
  split
  · rw [State.emit_sims, State.upd_other _ _ hqp]
  · split
    · split
      · rw [State.upd_other _ _ hqp]
      · rw [State.upd_other _ _ hqp]
    · rw [State.upd_other _ _ hqp]

theorem upToDate_of_busy {cfg : Cfg} {s : State} {p : Sid} (hp : p < cfg.n)
    (h : (s.sims p).pc = .inStep ∨ (s.sims p).pc = .inGet) : UpToDate cfg s := by
  intro hidle
  rcases h with h | h
  · exact absurd h (hidle p hp).1
  · exact absurd h (hidle p hp).2

theorem afterStep_upToDate {cfg : Cfg} (hw : WFCfg cfg) {s : State} {p : Sid} (hp : p < cfg.n) (c : TT)
    (hnf : (afterStep cfg s p c).failed = none) : UpToDate cfg (afterStep cfg s p c) := by
  unfold afterStep at hnf ⊢
  simp only at hnf ⊢
  split
  · rename_i hfail
    simp only [hfail, if_true] at hnf
    rw [hnf] at hfail; cases hfail
  · rename_i hfail
    simp only [hfail, if_false] at hnf
    split
    · rename_i hempty
      simp only [hempty, if_true] at hnf
      intro _ q hq _
      exact finish_progress hw p c hnf q hq
    · exact upToDate_of_busy hp (Or.inr (by simp))

theorem live_lt {cfg : Cfg} {s : State} {p : Sid} (h : live cfg s p = true) : p < cfg.n := by
  simp only [live, Bool.and_eq_true, decide_eq_true_eq] at h; exact h.2

theorem step_upToDate {cfg : Cfg} (hw : WFCfg cfg) {s s' : State} {a : Action} (hu : UpToDate cfg s)
    (h : step cfg s a = some s') (hnf : s'.failed = none) : UpToDate cfg s' := by
  cases a with
  | start p =>
    simp only [step, stepStart] at h
    split at h
    · rename_i hguard
      simp only [Bool.and_eq_true, beq_iff_eq] at hguard
      have hp := live_lt hguard.1
      split at h
      · rename_i hf; cases h; rw [hnf] at hf; cases hf
      · rename_i hf
        cases h
        have h1 : (advance cfg s p).failed = none := by
          cases hh : (advance cfg s p).failed with
          | none => rfl
          | some e => rw [hh] at hf; simp at hf
        have heq := advance_nf h1
        have hsame : ∀ x, ((settle cfg (advance cfg s p) p).sims x).cur = (s.sims x).cur ∧
            ((settle cfg (advance cfg s p) p).sims x).next = (s.sims x).next := by
          intro x; rw [settle_cur, settle_next, advance_cur, advance_next]; exact ⟨rfl, rfl⟩
        intro hidle q hq hninit
        rw [newProgress_congr hw hsame q, settle_progress]
        by_cases hqp : q = p
        · subst hqp
          rw [heq, State.upd_same]
        · have hsq : (settle cfg (advance cfg s p) p).sims q = s.sims q := by
            rw [settle_other _ _ _ hqp, heq, State.upd_other _ _ hqp]
          have hidle0 : Idle cfg s := by
            intro x hx
            by_cases hxp : x = p
            · subst hxp; rw [hguard.2]; exact ⟨by simp, by simp⟩
            · have : (settle cfg (advance cfg s p) p).sims x = s.sims x := by
                rw [settle_other _ _ _ hxp, heq, State.upd_other _ _ hxp]
              rw [← this]; exact hidle x hx
          rw [heq, State.upd_other _ _ hqp]
          rw [hsq] at hninit
          exact hu hidle0 q hq hninit
    · cases h
  | wake p =>
    simp only [step, stepWake] at h
    split at h
    · rename_i hlive
      cases hpc : (s.sims p).pc with
      | awaitSettle a dl =>
        simp only [hpc] at h
        split at h
        · have hrt : cfg.rt.isSome = false := by rw [hw.noRt]; rfl
          simp only [hrt, Bool.false_eq_true, if_false] at h
          split at h
          · rename_i hf; cases h
            simp only [State.upd_failed] at hf hnf
            rw [hnf] at hf; cases hf
          · cases h
            have hsame : ∀ x, ((settle cfg (s.upd p fun y => { y with newer := false }) p).sims x).cur = (s.sims x).cur ∧
                ((settle cfg (s.upd p fun y => { y with newer := false }) p).sims x).next = (s.sims x).next := by
              intro x; rw [settle_cur, settle_next, State.upd_sims]; split <;> exact ⟨rfl, rfl⟩
            have hprog : ∀ x, ((settle cfg (s.upd p fun y => { y with newer := false }) p).sims x).progress = (s.sims x).progress := by
              intro x; rw [settle_progress, State.upd_sims]; split <;> rfl
            have hother : ∀ x, x ≠ p → (settle cfg (s.upd p fun y => { y with newer := false }) p).sims x = s.sims x := by
              intro x hxp; rw [settle_other _ _ _ hxp, State.upd_other _ _ hxp]
            intro hidle q hq hninit
            rw [newProgress_congr hw hsame q, hprog]
            have hidle0 : Idle cfg s := by
              intro x hx
              by_cases hxp : x = p
              · subst hxp; rw [hpc]; exact ⟨by simp, by simp⟩
              · rw [← hother x hxp]; exact hidle x hx
            apply hu hidle0 q hq
            by_cases hqp : q = p
            · subst hqp; rw [hpc]; simp
            · rw [← hother q hqp]; exact hninit
        · cases h
      | init => simp [hpc] at h
      | waitDeps t => simp [hpc] at h
      | inStep => simp [hpc] at h
      | inGet => simp [hpc] at h
      | done => simp [hpc] at h
    · cases h
  | deps p =>
    simp only [step, stepDeps] at h
    split at h
    · rename_i hlive
      cases hpc : (s.sims p).pc with
      | waitDeps t =>
        simp only [hpc] at h
        split at h
        · cases hnext : (s.sims p).next with
          | nil => simp [hnext] at h
          | cons c rest =>
            simp only [hnext, Option.some.injEq] at h
            subst h
            exact upToDate_of_busy (live_lt hlive) (Or.inl (beginStep_pc cfg s p c rest hnf))
        · cases h
      | init => simp [hpc] at h
      | awaitSettle a dl => simp [hpc] at h
      | inStep => simp [hpc] at h
      | inGet => simp [hpc] at h
      | done => simp [hpc] at h
    · cases h
  | setData p target entries =>
    simp only [step, stepSetData] at h
    split at h
    · rename_i hguard
      simp only [Bool.and_eq_true, beq_iff_eq] at hguard
      split at h
      · cases h
        have := State.fail_failed s (.asyncRefused p)
        rw [hnf] at this; cases this
      · cases h
        apply upToDate_of_busy (live_lt hguard.1) (Or.inl _)
        rw [State.upd_sims]; split
        · rename_i hpt; subst hpt; exact hguard.2
        · exact hguard.2
    · cases h
  | getDataReq p target =>
    simp only [step, stepGetDataReq] at h
    split at h
    · rename_i hguard
      simp only [Bool.and_eq_true, beq_iff_eq] at hguard
      split at h
      · cases h
        have := State.fail_failed s (.asyncRefused p)
        rw [hnf] at this; cases this
      · cases h
        exact upToDate_of_busy (live_lt hguard.1) (Or.inl hguard.2)
    · cases h
  | setEvent p t =>
    simp only [step, stepSetEvent] at h
    split at h
    · have hrt : cfg.rt.isNone = true := by rw [hw.noRt]; rfl
      simp only [hrt, if_true, Option.some.injEq] at h
      subst h
      have := State.fail_failed s (.eventNotRt p)
      rw [hnf] at this; cases this
    · cases h
  | stepReply p r =>
    simp only [step, stepStepReply] at h
    split at h
    · rename_i hguard
      simp only [Bool.and_eq_true, beq_iff_eq] at hguard
      have hp := live_lt hguard.1
      cases hcur : (s.sims p).cur with
      | none => simp [hcur] at h
      | some c =>
        simp only [hcur, Option.some.injEq] at h
        subst h
        unfold processStepReply at hnf ⊢
        simp only at hnf ⊢
        cases r with
        | bad =>
          simp only at hnf
          have := State.fail_failed ((s.upd p fun y => { y with last := some c }).emit (.stepped p c)) (.badReply p .notInt)
          rw [hnf] at this; cases this
        | none =>
          simp only at hnf ⊢
          split
          · rename_i hty; simp only [hty, if_true] at hnf
            have := State.fail_failed ((s.upd p fun y => { y with last := some c }).emit (.stepped p c)) (.badReply p .noNextStep)
            rw [hnf] at this; cases this
          · rename_i hty; simp only [hty, if_false] at hnf
            exact afterStep_upToDate hw hp c hnf
        | int n =>
          simp only at hnf ⊢
          split
          · rename_i hle; simp only [hle, if_true] at hnf
            have := State.fail_failed ((s.upd p fun y => { y with last := some c }).emit (.stepped p c)) (.badReply p .notLater)
            rw [hnf] at this; cases this
          · rename_i hle; simp only [hle, if_false] at hnf
            split
            · rename_i hlt; simp only [hlt, if_true] at hnf
              exact afterStep_upToDate hw hp c hnf
            · rename_i hlt; simp only [hlt, if_false] at hnf
              exact afterStep_upToDate hw hp c hnf
    · cases h
  | dataReply p d =>
    simp only [step, stepDataReply] at h
    split at h
    · rename_i hguard
      simp only [Bool.and_eq_true, beq_iff_eq] at hguard
      cases hcur : (s.sims p).cur with
      | none => simp [hcur] at h
      | some c =>
        simp only [hcur, Option.some.injEq] at h
        subst h
        unfold processDataReply at hnf ⊢
        simp only at hnf ⊢
        split
        · rename_i hot; simp only [hot, if_true] at hnf
          have := State.fail_failed ((s.upd p fun y => { y with outTime := (outTimeOf c d).2 }).emit (.got p c (outTimeOf c d).2 d.data))
            (.badReply p .outputTimeEarly)
          rw [hnf] at this; cases this
        · rename_i hot; simp only [hot, if_false] at hnf
          intro _ q hq _
          exact finish_progress hw p c hnf q hq
    · cases h
  | tick n =>
    simp only [step, stepTick] at h
    have hrt : cfg.rt.isNone = true := by rw [hw.noRt]; rfl
    simp [hrt] at h

/-- **progress is up to date in every reachable quiescent state** -/
theorem reach_upToDate {cfg : Cfg} (hw : WFCfg cfg) {s : State} (hr : Reach cfg s) : s.failed = none → UpToDate cfg s := by
  induction hr with
  | init =>
    intro _ _ q _ hninit
    simp [initState, initSim] at hninit
  | @step s s' a _ hstep ih =>
    intro hnf
    have hf0 : s.failed = none := by
      cases hf : s.failed with
      | none => rfl
      | some e => rw [step_none_of_failed (by rw [hf]; rfl)] at hstep; cases hstep
    exact step_upToDate hw (ih hf0) hstep hnf

end Mosaik
