/-
Every action of the scheduler transition system preserves the invariants `Good`; hence they hold
in every reachable state (`reach_good`).
-/
import MosaikProofs.Sched.Inv
namespace Mosaik

/-- reachable states: any sequence of enabled actions from the initial state -/
inductive Reach (cfg : Cfg) : State → Prop where
  | init : Reach cfg (initState cfg)
  | step {s s' : State} {a : Action} : Reach cfg s → step cfg s a = some s' → Reach cfg s'

theorem live_iff {cfg : Cfg} {s : State} {p : Sid} : live cfg s p = true ↔ s.failed = none ∧ p < cfg.n := by
  simp [live]

/-! ### the initial state -/

theorem zero_le_of_length_le (k : Nat) (l : List Nat) (h : k ≤ l.length) : TT.zero k ≤ l := by
  apply TT.not_lt.mp
  intro hlt
  rw [List.lt_iff_exists] at hlt
  rcases hlt with ⟨_, hl⟩ | ⟨i, h1, h2, _, hi⟩
  · simp [TT.zero] at hl; omega
  · simp [TT.zero] at hi

theorem good_init {cfg : Cfg} (hw : WFCfg cfg) : Good cfg (initState cfg) := by
  intro _
  constructor
  · intro p hp
    obtain ⟨hs, hz⟩ := hw.next0Ok p hp
    have hd := hw.depth p hp
    constructor
    · exact zero_le_of_length_le _ _ (by simp [Cfg.endT, ofWorld_length])
    · exact hz
    · intro c hc; simp [initState, initSim] at hc
    · intro c hc; simp [initState, initSim] at hc
    · intro b hb; simp [initState, initSim] at hb
    · intro b hb; simp [initState, initSim] at hb
    · simp [initState, initSim]
    · exact hs
    · intro ad had f _
      exact zero_le_of_length_le _ _ (by simpa using hw.ancShape p hp ad had)
    · intro b hb; simp [initState, initSim] at hb
  · intro p _
    constructor
    · simp [initState, initSim]
    · intro _; rfl
    · intro t ht; simp [initState, initSim] at ht

/-! ### start / wake -/

theorem stepStart_good {cfg : Cfg} (hw : WFCfg cfg) {s s' : State} {p : Sid} (hg : Good cfg s)
    (h : stepStart cfg s p = some s') : Good cfg s' := by
  unfold stepStart at h
  split at h
  · rename_i hguard
    simp only [Bool.and_eq_true, live_iff, beq_iff_eq] at hguard
    obtain ⟨⟨hf, hp⟩, hpc⟩ := hguard
    obtain ⟨hc, hpcs⟩ := hg hf
    obtain ⟨g1, g2, g3, _, g5⟩ := advance_good (skip := cfg.n) hw hf hc (fun q hq _ => hpcs q hq) p hp
    simp only [g1, Option.isSome_none, Bool.false_eq_true, if_false, Option.some.injEq] at h
    subst h
    have hcur : ((advance cfg s p).sims p).cur = none := by
      rw [(g5 p).2.1]
      exact (hpcs p hp).idle (by rw [hpc]; simp)
    obtain ⟨e1, e2, e3, _⟩ := settle_good hp g2 (fun q hq _ => g3 q hq (by omega)) hcur
    intro _; exact ⟨e2, e3⟩
  · cases h

theorem stepWake_good {cfg : Cfg} (hw : WFCfg cfg) {s s' : State} {p : Sid} (hg : Good cfg s)
    (h : stepWake cfg s p = some s') : Good cfg s' := by
  unfold stepWake at h
  by_cases hguard : live cfg s p = true
  · obtain ⟨hf, hp⟩ := live_iff.mp hguard
    obtain ⟨hc, hpcs⟩ := hg hf
    simp only [hguard, if_true] at h
    cases hpc : (s.sims p).pc with
    | awaitSettle a dl =>
      simp only [hpc] at h
      split at h
      · simp only [hw.noRt, Option.isSome_none, Bool.false_eq_true, if_false, State.upd_failed, hf, Option.some.injEq] at h
        subst h
        have hfe : FieldsEq s (s.upd p fun x => { x with newer := false }) := by
          intro q; rw [State.upd_sims]; split <;> simp
        have hpcq : ∀ q, ((s.upd p fun x => { x with newer := false }).sims q).pc = (s.sims q).pc := by
          intro q; rw [State.upd_sims]; split <;> simp
        have hcur : ((s.upd p fun x => { x with newer := false }).sims p).cur = none := by
          rw [(hfe p).2.2.1]
          exact (hpcs p hp).idle (by rw [hpc]; simp)
        obtain ⟨_, e2, e3, _⟩ := settle_good hp (hfe.core hc)
          (fun q hq _ => hfe.pcOk_other (hpcq q) (hpcs q hq)) hcur
        intro _; exact ⟨e2, e3⟩
      · cases h
    | init => simp [hpc] at h
    | waitDeps t => simp [hpc] at h
    | inStep => simp [hpc] at h
    | inGet => simp [hpc] at h
    | done => simp [hpc] at h
  · simp [hguard] at h

end Mosaik

namespace Mosaik

/-! ### beginning a step -/

theorem getInputData_snd (cfg : Cfg) (s : State) (p : Sid) (c : TT) :
    ∃ f : SimSt → SimSt, (∀ x, (f x).ctrl = x.ctrl) ∧ (getInputData cfg s p c).2 = s.upd p f := by
  unfold getInputData
  exact ⟨fun x => { x with setData := [], buffer := (bufferTake x.buffer (TT.time c) []).2,
                           persistent := x.persistent.map fun e =>
                             match InputData.get? (stepInputs cfg s p c) e.1 with | some v => (e.1, v) | .none => e },
         fun x => rfl, rfl⟩

theorem fail_good (cfg : Cfg) (s : State) (e : SchedErr) : Good cfg (s.fail e) := by
  intro h
  have := State.fail_failed s e
  rw [h] at this; cases this

theorem stepDeps_good {cfg : Cfg} (hw : WFCfg cfg) {s s' : State} {p : Sid} (hg : Good cfg s)
    (h : stepDeps cfg s p = some s') : Good cfg s' := by
  unfold stepDeps at h
  by_cases hguard : live cfg s p = true
  · obtain ⟨hf, hp⟩ := live_iff.mp hguard
    obtain ⟨hc, hpcs⟩ := hg hf
    simp only [hguard, if_true] at h
    cases hpc : (s.sims p).pc with
    | waitDeps t =>
      simp only [hpc] at h
      split at h
      · rename_i hready
        cases hnext : (s.sims p).next with
        | nil => simp [hnext] at h
        | cons c rest =>
          simp only [hnext, Option.some.injEq] at h
          subst h
          obtain ⟨w1, w2, w3⟩ := (hpcs p hp).waiting t hpc
          have hct : c = t := by rw [hnext] at w1; simpa using w1
          subst hct
          have hpo := hc p hp
          unfold beginStep
          simp only [w2, ne_eq, not_true_eq_false, if_false]
          split
          · exact fail_good _ _ _
          · -- the step begins
            obtain ⟨f, hfctrl, hsnd⟩ := getInputData_snd cfg (s.upd p fun x => { x with cur := some c, next := rest }) p c
            generalize hgi : getInputData cfg (s.upd p fun x => { x with cur := some c, next := rest }) p c = gi at hsnd
            obtain ⟨inp, s2⟩ := gi
            simp only at hsnd ⊢
            subst hsnd
            -- fields of the resulting state
            have hother : ∀ q, q ≠ p → ((((s.upd p fun x => { x with cur := some c, next := rest }).upd p f).upd p
                fun x => { x with pc := .inStep, begun := c :: x.begun }).emit (.begin p c inp
                  (maxAdvance cfg ((s.upd p fun x => { x with cur := some c, next := rest }).upd p f) p c))).sims q = s.sims q := by
              intro q hq
              simp [State.upd_other _ _ hq]
            have hself : ∃ y : SimSt, ((((s.upd p fun x => { x with cur := some c, next := rest }).upd p f).upd p
                fun x => { x with pc := .inStep, begun := c :: x.begun }).emit (.begin p c inp
                  (maxAdvance cfg ((s.upd p fun x => { x with cur := some c, next := rest }).upd p f) p c))).sims p = y ∧
                y.pc = .inStep ∧ y.progress = c ∧ y.next = rest ∧ y.cur = some c ∧ y.begun = c :: (s.sims p).begun := by
              refine ⟨_, rfl, ?_⟩
              have hfc := hfctrl ({ s.sims p with cur := some c, next := rest })
              simp only [SimSt.ctrl, Prod.mk.injEq] at hfc
              obtain ⟨_, f2, f3, f4, f5⟩ := hfc
              simp only [State.emit_sims, State.upd_same]
              refine ⟨?_, ?_, ?_, ?_, ?_⟩
              · trivial
              · rw [f2]; exact w2
              · exact f3
              · exact f4
              · rw [f5]
            generalize ((((s.upd p fun x => { x with cur := some c, next := rest }).upd p f).upd p
                fun x => { x with pc := .inStep, begun := c :: x.begun }).emit (.begin p c inp
                  (maxAdvance cfg ((s.upd p fun x => { x with cur := some c, next := rest }).upd p f) p c))) = s3 at hother hself
            obtain ⟨y, hy, y1, y2, y3, y4, y5⟩ := hself
            have hfront : ∀ a, front (s3.sims a) = front (s.sims a) := by
              intro a
              by_cases hap : a = p
              · subst hap
                rw [hy, front_cur y4, front_none ((hpcs a hp).idle (by rw [hpc]; simp)), hnext]; rfl
              · rw [hother a hap]
            have hprog : ∀ a, (s3.sims a).progress = (s.sims a).progress := by
              intro a
              by_cases hap : a = p
              · subst hap; rw [hy, y2, w2]
              · rw [hother a hap]
            have hsorted := hpo.sorted
            rw [hnext] at hsorted
            have hsc := List.pairwise_cons.mp hsorted
            intro _
            constructor
            · intro q hq
              have hqo := hc q hq
              by_cases hqp : q = p
              · subst hqp
                constructor
                · rw [hy, y2, ← w2]; exact hqo.le_end
                · rw [hy, y2, y3]; intro x hx; exact TT.le_of_lt (hsc.1 x hx)
                · rw [hy, y2, y4]; intro c' hc'; cases hc'; rfl
                · rw [hy, y4, y5]; intro c' hc'; cases hc'; exact List.mem_cons_self
                · rw [hy, y3, y5]; intro b hb x hx
                  rcases List.mem_cons.mp hb with rfl | hb
                  · exact hsc.1 x hx
                  · exact hqo.begun_lt_next b hb x (by rw [hnext]; exact List.mem_cons_of_mem _ hx)
                · rw [hy, y2, y5]; intro b hb
                  rcases List.mem_cons.mp hb with rfl | hb
                  · exact TT.le_refl _
                  · rw [← w2]; exact hqo.begun_le b hb
                · rw [hy, y5, List.pairwise_cons]
                  refine ⟨?_, hqo.begun_sorted⟩
                  intro b hb
                  exact hqo.begun_lt_next b hb c (by rw [hnext]; exact List.mem_cons_self)
                · rw [hy, y3]; exact hsc.2
                · intro ad had fr hfr
                  rw [hfront] at hfr
                  rw [hy, y2, ← w2]; exact hqo.anc ad had fr hfr
                · rw [hy, y5]; intro b hb qd hqd
                  rw [hprog]
                  rcases List.mem_cons.mp hb with rfl | hb
                  · -- the guard of wait_for_dependencies
                    unfold depsReady at hready
                    simp only [Bool.and_eq_true, List.all_eq_true, decide_eq_true_eq] at hready
                    exact hready.1.1 qd hqd
                  · exact hqo.inputs b hb qd hqd
              · constructor
                · rw [hother q hqp]; exact hqo.le_end
                · rw [hother q hqp]; exact hqo.le_next
                · rw [hother q hqp]; exact hqo.cur_eq
                · rw [hother q hqp]; exact hqo.cur_begun
                · rw [hother q hqp]; exact hqo.begun_lt_next
                · rw [hother q hqp]; exact hqo.begun_le
                · rw [hother q hqp]; exact hqo.begun_sorted
                · rw [hother q hqp]; exact hqo.sorted
                · intro ad had fr hfr
                  rw [hfront] at hfr
                  rw [hother q hqp]; exact hqo.anc ad had fr hfr
                · rw [hother q hqp]; intro b hb qd hqd
                  rw [hprog]; exact hqo.inputs b hb qd hqd
            · intro q hq
              by_cases hqp : q = p
              · subst hqp
                constructor
                · intro _; rw [hy]; exact ⟨c, y4⟩
                · intro hn; rw [hy] at hn; exact absurd (Or.inl y1) hn
                · intro t' ht'; rw [hy, y1] at ht'; cases ht'
              · have := hpcs q hq
                constructor
                · rw [hother q hqp]; exact this.inflight
                · rw [hother q hqp]; exact this.idle
                · rw [hother q hqp]; exact this.waiting
      · cases h
    | init => simp [hpc] at h
    | awaitSettle a dl => simp [hpc] at h
    | inStep => simp [hpc] at h
    | inGet => simp [hpc] at h
    | done => simp [hpc] at h
  · simp [hguard] at h

end Mosaik

namespace Mosaik

/-! ### replies -/

theorem ctrlEq_failed_upd (s : State) (p : Sid) (f : SimSt → SimSt) : (s.upd p f).failed = s.failed := rfl

/-- `get_outputs` only touches data-flow fields -/
theorem storeOutputs_ctrlEq (cfg : Cfg) (s : State) (p : Sid) (ot : Int) (d : DataReply) :
    CtrlEq s (storeOutputs cfg s p ot d) ∧ (storeOutputs cfg s p ot d).failed = s.failed ∧
    ((storeOutputs cfg s p ot d).sims p).outTime = (s.sims p).outTime := by
  unfold storeOutputs
  simp only
  -- the cache update
  have h2 : ∀ (s2 : State), (CtrlEq s s2 ∧ s2.failed = s.failed ∧ (s2.sims p).outTime = (s.sims p).outTime) →
      CtrlEq s (((cfg.sim p).push.foldl (fun st (e : Port × Sid × TI × Port) =>
        match OutData.get? d.data e.1 with
        | .none => st
        | some v => st.upd e.2.1 fun y =>
            { y with buffer := insertBuf { time := ot.toNat + tier e.2.2.1.tiers 0, ctr := y.ctr,
                                           key := { eid := e.2.2.2.1, attr := e.2.2.2.2, ssid := p, seid := e.1.1 }, val := v } y.buffer,
                     ctr := y.ctr + 1 }) s2).upd p fun x => { x with data := d.data }) ∧
      (((cfg.sim p).push.foldl (fun st (e : Port × Sid × TI × Port) =>
        match OutData.get? d.data e.1 with
        | .none => st
        | some v => st.upd e.2.1 fun y =>
            { y with buffer := insertBuf { time := ot.toNat + tier e.2.2.1.tiers 0, ctr := y.ctr,
                                           key := { eid := e.2.2.2.1, attr := e.2.2.2.2, ssid := p, seid := e.1.1 }, val := v } y.buffer,
                     ctr := y.ctr + 1 }) s2).upd p fun x => { x with data := d.data }).failed = s.failed ∧
      ((((cfg.sim p).push.foldl (fun st (e : Port × Sid × TI × Port) =>
        match OutData.get? d.data e.1 with
        | .none => st
        | some v => st.upd e.2.1 fun y =>
            { y with buffer := insertBuf { time := ot.toNat + tier e.2.2.1.tiers 0, ctr := y.ctr,
                                           key := { eid := e.2.2.2.1, attr := e.2.2.2.2, ssid := p, seid := e.1.1 }, val := v } y.buffer,
                     ctr := y.ctr + 1 }) s2).upd p fun x => { x with data := d.data }).sims p).outTime = (s.sims p).outTime := by
    intro s2 hs2
    have hfold := foldl_inv (fun st => CtrlEq s st ∧ st.failed = s.failed ∧ (st.sims p).outTime = (s.sims p).outTime)
      (fun st (e : Port × Sid × TI × Port) =>
        match OutData.get? d.data e.1 with
        | .none => st
        | some v => st.upd e.2.1 fun y =>
            { y with buffer := insertBuf { time := ot.toNat + tier e.2.2.1.tiers 0, ctr := y.ctr,
                                           key := { eid := e.2.2.2.1, attr := e.2.2.2.2, ssid := p, seid := e.1.1 }, val := v } y.buffer,
                     ctr := y.ctr + 1 }) (cfg.sim p).push s2 hs2 (by
        intro st e _ ⟨g1, g2, g3⟩
        split
        · exact ⟨g1, g2, g3⟩
        · refine ⟨g1.trans (ctrlEq_upd _ _ _ (fun _ => rfl)), g2, ?_⟩
          rw [State.upd_sims]; split
          · simpa using g3
          · exact g3)
    obtain ⟨g1, g2, g3⟩ := hfold
    refine ⟨g1.trans (ctrlEq_upd _ _ _ (fun _ => rfl)), g2, ?_⟩
    simpa using g3
  split
  · apply h2
    refine ⟨ctrlEq_upd _ _ _ (fun _ => rfl), rfl, ?_⟩
    simp
  · exact h2 s ⟨CtrlEq.refl s, rfl, rfl⟩

theorem time_zeroExt (n k : Nat) : TT.time (zeroExt n k) = n := by simp [TT.time, zeroExt, tier]

theorem le_outTimeOf (c : TT) (d : DataReply) (h : ¬ (TT.time c : Int) > (outTimeOf c d).1) :
    c ≤ (outTimeOf c d).2 := by
  unfold outTimeOf at h ⊢
  simp only at h ⊢
  split
  · exact TT.le_refl _
  · rename_i hne
    apply TT.le_of_lt
    apply TT.lt_of_time_lt
    rw [time_zeroExt]
    omega

theorem rtCheck_id {cfg : Cfg} (hw : WFCfg cfg) (s : State) (p : Sid) (c : TT) : rtCheck cfg s p c = s := by
  simp [rtCheck, hw.noRt]

/-- after a valid `step` reply -/
theorem afterStep_good {cfg : Cfg} (hw : WFCfg cfg) {s : State} {p : Sid} (hp : p < cfg.n) {c : TT}
    (hf : s.failed = none) (hc : Core cfg s) (hpcs : Pcs cfg s) (hcur : (s.sims p).cur = some c) :
    Good cfg (afterStep cfg s p c) := by
  unfold afterStep
  simp only [rtCheck_id hw, hf, Option.isSome_none, Bool.false_eq_true, if_false]
  split
  · rename_i hempty
    obtain ⟨g1, g2, g3⟩ := finish_good hw hp hf hc (fun q hq _ => hpcs q hq) hcur (Or.inl (hw.trigReq p hp hempty))
    intro _; exact ⟨g2, g3⟩
  · intro _
    have hfe : FieldsEq s (s.upd p fun x => { x with pc := .inGet }) := fieldsEq_setPc s p .inGet
    refine ⟨hfe.core hc, ?_⟩
    intro q hq
    by_cases hqp : q = p
    · subst hqp
      constructor
      · intro _; rw [(hfe q).2.2.1]; exact ⟨c, hcur⟩
      · intro hn; exfalso; apply hn; right; simp
      · intro t ht; simp at ht
    · exact hfe.pcOk_other (by rw [State.upd_other _ _ hqp]) (hpcs q hq)

theorem stepStepReply_good {cfg : Cfg} (hw : WFCfg cfg) {s s' : State} {p : Sid} {r : StepReply} (hg : Good cfg s)
    (h : stepStepReply cfg s p r = some s') : Good cfg s' := by
  unfold stepStepReply at h
  split at h
  · rename_i hguard
    simp only [Bool.and_eq_true, live_iff, beq_iff_eq] at hguard
    obtain ⟨⟨hf, hp⟩, hpc⟩ := hguard
    obtain ⟨hc, hpcs⟩ := hg hf
    cases hcur : (s.sims p).cur with
    | none => simp [hcur] at h
    | some c =>
      simp only [hcur, Option.some.injEq] at h
      subst h
      have hpo := hc p hp
      -- s1: last_step := current_step
      have hce : CtrlEq s ((s.upd p fun x => { x with last := some c }).emit (.stepped p c)) :=
        (ctrlEq_upd s p (fun x => { x with last := some c }) (fun _ => rfl)).trans (ctrlEq_emit _ _)
      have hc1 := hce.core hc
      have hp1 := hce.pcs hpcs
      have hcur1 : (((s.upd p fun x => { x with last := some c }).emit (.stepped p c)).sims p).cur = some c := by
        rw [(hce.fields p).2.2.2.1]; exact hcur
      have hf1 : ((s.upd p fun x => { x with last := some c }).emit (.stepped p c)).failed = none := hf
      unfold processStepReply
      simp only
      cases r with
      | bad => exact fail_good _ _ _
      | none =>
        simp only
        split
        · exact fail_good _ _ _
        · exact afterStep_good hw hp hf1 hc1 hp1 hcur1
      | int n =>
        simp only
        split
        · exact fail_good _ _ _
        · rename_i hnl
          split
          · -- the simulator schedules its own next step
            rename_i hlt
            have hd := hw.depth p hp
            have htime : TT.time c < TT.time (ofWorld (cfg.sim p).depth n.toNat) := by
              rw [time_ofWorld hd]; omega
            have hct : c < ofWorld (cfg.sim p).depth n.toNat := TT.lt_of_time_lt htime
            have hprog1 : (((s.upd p fun x => { x with last := some c }).emit (.stepped p c)).sims p).progress = c := by
              rw [(hce.fields p).2.1]; exact hpo.cur_eq c hcur
            obtain ⟨g1, g2⟩ := schedule_good (skip := cfg.n) hc1 (fun q hq _ => hp1 q hq) p
              (ofWorld (cfg.sim p).depth n.toNat)
              (by rw [hprog1]; exact TT.le_of_lt hct)
              (by
                intro bb hbb
                have := (hc1 p hp).begun_le bb hbb
                rw [hprog1] at this
                exact TT.lt_of_le_of_lt this hct)
              (by
                intro q hq ad had hap
                have := (hc1 q hq).anc ad had c (by rw [hap]; exact front_cur hcur1)
                exact TT.le_trans this (TI.act_mono_left _ (TT.le_of_lt hct)))
            obtain ⟨e1, e2, _, _⟩ := schedule_fields ((s.upd p fun x => { x with last := some c }).emit (.stepped p c)) p
              (ofWorld (cfg.sim p).depth n.toNat)
            exact afterStep_good hw hp (by rw [e1]; exact hf1) g1 (fun q hq => g2 q hq (by omega))
              (by rw [(e2 p).2.1]; exact hcur1)
          · exact afterStep_good hw hp hf1 hc1 hp1 hcur1
  · cases h

theorem stepDataReply_good {cfg : Cfg} (hw : WFCfg cfg) {s s' : State} {p : Sid} {d : DataReply} (hg : Good cfg s)
    (h : stepDataReply cfg s p d = some s') : Good cfg s' := by
  unfold stepDataReply at h
  split at h
  · rename_i hguard
    simp only [Bool.and_eq_true, live_iff, beq_iff_eq] at hguard
    obtain ⟨⟨hf, hp⟩, hpc⟩ := hguard
    obtain ⟨hc, hpcs⟩ := hg hf
    cases hcur : (s.sims p).cur with
    | none => simp [hcur] at h
    | some c =>
      simp only [hcur, Option.some.injEq] at h
      subst h
      unfold processDataReply
      simp only
      split
      · exact fail_good _ _ _
      · rename_i hot
        have hce1 : CtrlEq s ((s.upd p fun x => { x with outTime := (outTimeOf c d).2 }).emit (.got p c (outTimeOf c d).2 d.data)) :=
          (ctrlEq_upd s p (fun x => { x with outTime := (outTimeOf c d).2 }) (fun _ => rfl)).trans (ctrlEq_emit _ _)
        obtain ⟨hce2, hf2, hout2⟩ := storeOutputs_ctrlEq cfg
          ((s.upd p fun x => { x with outTime := (outTimeOf c d).2 }).emit (.got p c (outTimeOf c d).2 d.data)) p (outTimeOf c d).1 d
        have hce := hce1.trans hce2
        obtain ⟨g1, g2, g3⟩ := finish_good hw hp (by rw [hf2]; exact hf) (hce.core hc)
          (fun q hq _ => hce.pcOk (hpcs q hq)) (by rw [(hce.fields p).2.2.2.1]; exact hcur)
          (Or.inr (by rw [hout2]; simp; exact le_outTimeOf c d hot))
        intro _; exact ⟨g2, g3⟩
  · cases h

/-! ### asynchronous requests, clock -/

theorem stepSetData_good {cfg : Cfg} {s s' : State} {p target : Sid} {entries : InputData} (hg : Good cfg s)
    (h : stepSetData cfg s p target entries = some s') : Good cfg s' := by
  unfold stepSetData at h
  split at h
  · rename_i hguard
    simp only [Bool.and_eq_true, live_iff, beq_iff_eq] at hguard
    obtain ⟨⟨hf, _⟩, _⟩ := hguard
    obtain ⟨hc, hpcs⟩ := hg hf
    split at h
    · cases h; exact fail_good _ _ _
    · cases h
      have hce : CtrlEq s (s.upd target fun x => { x with setData := entries.foldl (fun acc e => InputData.set acc e.1 e.2) x.setData }) :=
        ctrlEq_upd s target _ (fun _ => rfl)
      intro _; exact ⟨hce.core hc, hce.pcs hpcs⟩
  · cases h

theorem stepGetDataReq_good {cfg : Cfg} {s s' : State} {p target : Sid} (hg : Good cfg s)
    (h : stepGetDataReq cfg s p target = some s') : Good cfg s' := by
  unfold stepGetDataReq at h
  split at h
  · split at h
    · cases h; exact fail_good _ _ _
    · cases h; exact hg
  · cases h

theorem stepSetEvent_good {cfg : Cfg} (hw : WFCfg cfg) {s s' : State} {p : Sid} {t : Nat}
    (h : stepSetEvent cfg s p t = some s') : Good cfg s' := by
  unfold stepSetEvent at h
  split at h
  · simp only [hw.noRt, Option.isNone_none, if_true, Option.some.injEq] at h
    subst h; exact fail_good _ _ _
  · cases h

theorem stepTick_none {cfg : Cfg} (hw : WFCfg cfg) (s : State) (n : Nat) : stepTick cfg s n = none := by
  simp [stepTick, hw.noRt]

/-! ### the invariants hold in every reachable state -/

theorem good_step {cfg : Cfg} (hw : WFCfg cfg) {s s' : State} {a : Action} (hg : Good cfg s)
    (h : step cfg s a = some s') : Good cfg s' := by
  cases a with
  | start p => exact stepStart_good hw hg h
  | wake p => exact stepWake_good hw hg h
  | deps p => exact stepDeps_good hw hg h
  | setData p target entries => exact stepSetData_good hg h
  | getDataReq p target => exact stepGetDataReq_good hg h
  | setEvent p t => exact stepSetEvent_good hw h
  | stepReply p r => exact stepStepReply_good hw hg h
  | dataReply p d => exact stepDataReply_good hw hg h
  | tick n => simp [step, stepTick_none hw] at h

theorem reach_good {cfg : Cfg} (hw : WFCfg cfg) {s : State} (hr : Reach cfg s) : Good cfg s := by
  induction hr with
  | init => exact good_init hw
  | step _ hstep ih => exact good_step hw ih hstep

end Mosaik
