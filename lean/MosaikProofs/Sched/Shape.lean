/-
Shapes: every scheduled step and every step in flight of a simulator has as many tiers as the
simulator's group depth says (`reach_shape`), for configurations whose trigger delays have the
length of the triggered simulator's times (`WFShape`, what `connect_interval` produces).
-/
import MosaikProofs.Sched.Quiescent
namespace Mosaik

structure WFShape (cfg : Cfg) : Prop where
  trigLen : ∀ x, x < cfg.n → ∀ tr ∈ (cfg.sim x).triggers, tr.2.2.tiers.length = (cfg.sim tr.2.1).depth
  ancLen : ∀ q, q < cfg.n → ∀ ad ∈ (cfg.sim q).trigAnc, ad.2.tiers.length = (cfg.sim q).depth
  next0Len : ∀ p, ∀ t ∈ (cfg.sim p).next0, t.length = (cfg.sim p).depth

def ShapeNC (cfg : Cfg) (s : State) : Prop :=
  ∀ p, (∀ x ∈ (s.sims p).next, x.length = (cfg.sim p).depth) ∧ (∀ c, (s.sims p).cur = some c → c.length = (cfg.sim p).depth)

theorem step_shape {cfg : Cfg} (hw : WFCfg cfg) (hs : WFShape cfg) {s s' : State} {a : Action} (h0 : ShapeNC cfg s)
    (h : step cfg s a = some s') : ShapeNC cfg s' := by
  have hnext : ∀ p, ∀ x ∈ (s'.sims p).next, x.length = (cfg.sim p).depth := by
    intro p x hx
    rcases step_sources h p x hx with h1 | ⟨n, c, _, _, _, _, hxe⟩ | ⟨q, c, tr, data, outT, hqn, _, htr, hb, _, hxe, _⟩ | ⟨t, _, hrt⟩
    · exact (h0 p).1 x h1
    · rw [hxe, ofWorld_length]
    · rw [hxe, TI.act_length, hs.trigLen q hqn tr htr, hb]
    · rw [hw.noRt] at hrt; cases hrt
  intro p
  refine ⟨hnext p, ?_⟩
  intro c hc
  rcases step_cur_sources h p c hc with h1 | h1
  · exact (h0 p).2 c h1
  · exact (h0 p).1 c (List.mem_of_mem_head? h1)

theorem reach_shape {cfg : Cfg} (hw : WFCfg cfg) (hs : WFShape cfg) {s : State} (hr : Reach cfg s) : ShapeNC cfg s := by
  induction hr with
  | init =>
    intro p
    constructor
    · intro x hx; simp only [initState, initSim] at hx; exact hs.next0Len p x hx
    · intro c hc; simp [initState, initSim] at hc
  | @step s s' a _ hstep ih => exact step_shape hw hs ih hstep

/-- in a quiescent state the progress of a started simulator has the simulator's shape, too -/
theorem progress_length {cfg : Cfg} (hw : WFCfg cfg) (hs : WFShape cfg) {s : State} (hr : Reach cfg s) (hnf : s.failed = none)
    (hidle : Idle cfg s) {q : Sid} (hq : q < cfg.n) (hninit : (s.sims q).pc ≠ .init) :
    (s.sims q).progress.length = (cfg.sim q).depth := by
  rw [reach_upToDate hw hr hnf hidle q hq hninit]
  have hsh := reach_shape hw hs hr
  unfold newProgress
  rcases minTT_mem (candidates cfg s q) (cfg.endT q) with h | h
  · rw [h]; exact ofWorld_length _ _
  · rcases (mem_candidates hw s q _).mp h with ⟨ad, had, f, _, hx⟩ | h1 | h1
    · rw [hx, TI.act_length, hs.ancLen q hq ad had]
    · exact (hsh q).1 _ (List.mem_of_mem_head? h1)
    · exact (hsh q).2 _ h1

end Mosaik
