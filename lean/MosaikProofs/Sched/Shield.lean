/-
The run form of the `max_advance` promise (C07).

`Shield cfg s p c m`: in state `s` nothing outside `p` is in a position to cause a step of `p` at a
time `≤ m`: every step in flight or scheduled of every triggering ancestor (other than `p`), delayed
by the minimal trigger-path delay, lies after `m`; every step scheduled for `p` lies after `m`; and
the step `p` has in flight is the promised step `c` or lies after `m`.

`Quiet cfg p m a`: the action is not one of `p`'s own causes inside the window: `p` does not
schedule itself at a time `≤ m`, and does not produce an output that triggers itself or one of its
own triggering ancestors.  (Those are the causes the property allows: "traceable to `p`'s own
output or self-schedule".)

`shield_step`: a quiet action preserves the shield.  No invariant is needed, only the
configuration facts `WFCfg` (the ancestor table covers direct triggers and is closed under
prefixing a trigger connection).
-/
import MosaikProofs.Sched.Sources
namespace Mosaik

structure Shield (cfg : Cfg) (s : State) (p : Sid) (c : TT) (m : Nat) : Prop where
  cur : ∀ ad ∈ (cfg.sim p).trigAnc, ad.1 ≠ p → ∀ x, (s.sims ad.1).cur = some x → m < TT.time (TI.act x ad.2)
  next : ∀ ad ∈ (cfg.sim p).trigAnc, ad.1 ≠ p → ∀ x ∈ (s.sims ad.1).next, m < TT.time (TI.act x ad.2)
  own : ∀ x ∈ (s.sims p).next, m < TT.time x
  pcur : ∀ x, (s.sims p).cur = some x → x = c ∨ m < TT.time x

def Quiet (cfg : Cfg) (p : Sid) (m : Nat) : Action → Prop
  | .stepReply q r => q = p → ∀ n : Int, r = .int n → (m : Int) < n
  | .dataReply q d => q = p → ∀ tr ∈ (cfg.sim p).triggers, OutData.has d.data tr.1 = true →
      tr.2.1 ≠ p ∧ ∀ ad ∈ (cfg.sim p).trigAnc, ad.1 ≠ p → ad.1 ≠ tr.2.1
  | _ => True

theorem shield_step {cfg : Cfg} (hw : WFCfg cfg) {s s' : State} {a : Action} {p : Sid} (hp : p < cfg.n) {c : TT} {m : Nat}
    (hs : Shield cfg s p c m) (hq : Quiet cfg p m a) (h : step cfg s a = some s') : Shield cfg s' p c m := by
  -- a trigger delivered by `q ≠ p` to `b`, seen from the ancestor entry of `q`
  have trigOwn : ∀ x, TrigSrc cfg s a p x → m < TT.time x := by
    rintro x ⟨q, cq, tr, data, outT, hqn, hcur, htr, hb, hhas, hx, hsrc⟩
    have hle : cq ≤ outT := by
      rcases hsrc with ⟨d, _, _, ho, hot⟩ | ⟨r, _, hempty, _, _⟩
      · rw [ho]; exact le_outTimeOf cq d hot
      · rw [hw.trigReq q hqn hempty] at htr; cases htr
    by_cases hqp : q = p
    · subst hqp
      rcases hsrc with ⟨d, ha, hd, _, _⟩ | ⟨r, _, hempty, _, _⟩
      · subst ha
        have := (hq rfl tr htr (by rw [← hd]; exact hhas)).1
        exact absurd hb this
      · rw [hw.trigReq q hqn hempty] at htr; cases htr
    · obtain ⟨d', hd', hle'⟩ := hw.direct q hqn tr htr
      rw [hb] at hd'
      have h1 := hs.cur (q, d') hd' hqp cq hcur
      have h2 : TI.act cq d' ≤ x := by
        rw [hx]
        exact TT.le_trans (TI.act_mono_right cq hle') (TI.act_mono_left _ hle)
      have := TT.time_mono h2
      simp only at h1
      omega
  have trigAnc : ∀ ad ∈ (cfg.sim p).trigAnc, ad.1 ≠ p → ∀ x, TrigSrc cfg s a ad.1 x → m < TT.time (TI.act x ad.2) := by
    rintro ad had hne x ⟨q, cq, tr, data, outT, hqn, hcur, htr, hb, hhas, hx, hsrc⟩
    have hle : cq ≤ outT := by
      rcases hsrc with ⟨d, _, _, ho, hot⟩ | ⟨r, _, hempty, _, _⟩
      · rw [ho]; exact le_outTimeOf cq d hot
      · rw [hw.trigReq q hqn hempty] at htr; cases htr
    by_cases hqp : q = p
    · subst hqp
      rcases hsrc with ⟨d, ha, hd, _, _⟩ | ⟨r, _, hempty, _, _⟩
      · subst ha
        have := (hq rfl tr htr (by rw [← hd]; exact hhas)).2 ad had hne
        exact absurd hb.symm this
      · rw [hw.trigReq q hqn hempty] at htr; cases htr
    · obtain ⟨⟨d', hd', hle'⟩, hcut⟩ := hw.trans q hqn tr htr p hp ad had hb.symm
      have h1 := hs.cur (q, d') hd' hqp cq hcur
      have h2 : TI.act cq d' ≤ TI.act cq (TI.add tr.2.2 ad.2) := TI.act_mono_right cq hle'
      rw [← TI.act_act cq tr.2.2 ad.2 hcut] at h2
      have h3 : TI.act (TI.act cq tr.2.2) ad.2 ≤ TI.act x ad.2 := by
        rw [hx]; exact TI.act_mono_left _ (TI.act_mono_left _ hle)
      have := TT.time_mono (TT.le_trans h2 h3)
      simp only at h1
      omega
  have noEvent : ∀ b, ¬ (∃ t, a = .setEvent b t ∧ cfg.rt.isSome) := by
    rintro b ⟨t, _, hrt⟩; rw [hw.noRt] at hrt; cases hrt
  have nextAnc : ∀ ad ∈ (cfg.sim p).trigAnc, ad.1 ≠ p → ∀ x ∈ (s'.sims ad.1).next, m < TT.time (TI.act x ad.2) := by
    intro ad had hne x hx
    rcases step_sources h ad.1 x hx with h1 | ⟨n, cb, ha, hcur, hlt, _, hxe⟩ | h3 | h4
    · exact hs.next ad had hne x h1
    · have h1 := hs.cur ad had hne cb hcur
      have hdep : 0 < (cfg.sim ad.1).depth := hw.depth _ (hw.ancRange p hp ad had)
      have hct : cb < x := by
        rw [hxe]; apply TT.lt_of_time_lt; rw [time_ofWorld hdep]; omega
      have := TT.time_mono (TI.act_mono_left ad.2 (TT.le_of_lt hct))
      omega
    · exact trigAnc ad had hne x h3
    · exact absurd h4 (noEvent _)
  constructor
  · intro ad had hne x hx
    rcases step_cur_sources h ad.1 x hx with h1 | h1
    · exact hs.cur ad had hne x h1
    · exact hs.next ad had hne x (List.mem_of_mem_head? h1)
  · exact nextAnc
  · intro x hx
    rcases step_sources h p x hx with h1 | ⟨n, cb, ha, hcur, hlt, _, hxe⟩ | h3 | h4
    · exact hs.own x h1
    · subst ha
      have := hq rfl n rfl
      rw [hxe, time_ofWorld (hw.depth p hp)]
      omega
    · exact trigOwn x h3
    · exact absurd h4 (noEvent _)
  · intro x hx
    rcases step_cur_sources h p x hx with h1 | h1
    · exact hs.pcur x h1
    · exact Or.inr (hs.own x (List.mem_of_mem_head? h1))

/-- … along every run of quiet actions -/
theorem shield_exec {cfg : Cfg} (hw : WFCfg cfg) {p : Sid} (hp : p < cfg.n) {c : TT} {m : Nat} :
    ∀ (as : List Action) {s s' : State}, Shield cfg s p c m → (∀ a ∈ as, Quiet cfg p m a) → exec cfg s as = some s' →
      Shield cfg s' p c m := by
  intro as
  induction as with
  | nil => intro s s' hs _ he; simp only [exec, Option.some.injEq] at he; subst he; exact hs
  | cons a as ih =>
    intro s s' hs hq he
    simp only [exec] at he
    cases hst : step cfg s a with
    | none => rw [hst] at he; cases he
    | some s1 =>
      rw [hst] at he
      exact ih (shield_step hw hp hs (hq a List.mem_cons_self) hst) (fun b hb => hq b (List.mem_cons_of_mem _ hb)) he

end Mosaik
