/-
Where scheduled steps come from: every element of a simulator's `next_steps` after an action was
there before, or is the simulator's own returned next step, or the delayed output time of an output
that a simulator finishing its step delivered to one of its trigger connections.  (Unconditional:
no invariant is needed.)  Used for C02 (no spurious steps) and C07 (run form of the promise).
-/
import MosaikProofs.Sched.Reach
namespace Mosaik

/-- the simulator's own returned next step -/
def SelfSrc (cfg : Cfg) (s : State) (a : Action) (b : Sid) (x : TT) : Prop :=
  ∃ (n : Int) (c : TT), a = .stepReply b (.int n) ∧ (s.sims b).cur = some c ∧ (TT.time c : Int) < n ∧
    n < (cfg.until_ : Int) ∧ x = ofWorld (cfg.sim b).depth n.toNat

/-- the delayed output time of an output of `q`'s step `c` delivered to a trigger connection `q → b` -/
def TrigSrc (cfg : Cfg) (s : State) (a : Action) (b : Sid) (x : TT) : Prop :=
  ∃ (q : Sid) (c : TT) (tr : Port × Sid × TI) (data : OutData) (outT : TT),
    q < cfg.n ∧ (s.sims q).cur = some c ∧ tr ∈ (cfg.sim q).triggers ∧ tr.2.1 = b ∧ OutData.has data tr.1 = true ∧
    x = TI.act outT tr.2.2 ∧
    ((∃ d, a = .dataReply q d ∧ data = d.data ∧ outT = (outTimeOf c d).2 ∧ ¬ (TT.time c : Int) > (outTimeOf c d).1) ∨
     (∃ r, a = .stepReply q r ∧ (cfg.sim q).outReq.isEmpty = true ∧ data = (s.sims q).data ∧ outT = (s.sims q).outTime))

/-! ### functions that leave `next` alone -/

theorem advance_next (cfg : Cfg) (s : State) (q : Sid) : ∀ a, ((advance cfg s q).sims a).next = (s.sims a).next := by
  intro a
  unfold advance
  simp only
  split
  · rw [State.fail_sims]
  · rw [State.upd_sims]; split <;> rfl

theorem advanceAll_next (cfg : Cfg) (s : State) : ∀ a, ((advanceAll cfg s).sims a).next = (s.sims a).next := by
  unfold advanceAll
  apply foldl_inv (fun st => ∀ a, (st.sims a).next = (s.sims a).next)
  · intro a; rfl
  · intro st q _ h a
    split
    · exact h a
    · rw [advance_next, h a]

theorem settle_next (cfg : Cfg) (s : State) (p : Sid) : ∀ a, ((settle cfg s p).sims a).next = (s.sims a).next := by
  intro a
  unfold settle
  simp only
  have key : ∀ pc : PC, ((s.upd p fun x => { x with pc := pc }).sims a).next = (s.sims a).next := by
    intro pc; rw [State.upd_sims]; split <;> rfl
  split
  · exact key _
  · split
    · split
      · exact key _
      · exact key _
    · exact key _

theorem prune_next (cfg : Cfg) (s : State) : ∀ a, ((prune cfg s).sims a).next = (s.sims a).next :=
  fun a => ((prune_ctrlEq cfg s).fields a).2.2.1

/-- what `notify_dependencies` adds -/
theorem notify_next (cfg : Cfg) (s : State) (p : Sid) : ∀ b x, x ∈ ((notify cfg s p).sims b).next →
    x ∈ (s.sims b).next ∨ ∃ tr ∈ (cfg.sim p).triggers, tr.2.1 = b ∧ OutData.has (s.sims p).data tr.1 = true ∧
      x = TI.act (s.sims p).outTime tr.2.2 := by
  unfold notify
  apply foldl_inv (fun st => ∀ b x, x ∈ (st.sims b).next →
    x ∈ (s.sims b).next ∨ ∃ tr ∈ (cfg.sim p).triggers, tr.2.1 = b ∧ OutData.has (s.sims p).data tr.1 = true ∧
      x = TI.act (s.sims p).outTime tr.2.2)
  · intro b x hx; exact Or.inl hx
  · intro st tr htr ih b x hx
    split at hx
    · rename_i hhas
      obtain ⟨_, _, hother, hb⟩ := schedule_fields st tr.2.1 (TI.act (s.sims p).outTime tr.2.2)
      by_cases hbb : b = tr.2.1
      · subst hbb
        rcases hb with hb | ⟨_, hb⟩
        · rw [hb] at hx; exact ih _ x hx
        · rw [hb] at hx
          rcases (mem_insertSorted _ _ x).mp hx with h | h
          · exact Or.inr ⟨tr, htr, rfl, hhas, h⟩
          · exact ih _ x h
      · rw [hother b hbb] at hx; exact ih b x hx
    · exact ih b x hx

/-- what the block ending a step adds -/
theorem finish_next (cfg : Cfg) (s : State) (p : Sid) (c : TT) : ∀ b x, x ∈ ((finish cfg s p c).sims b).next →
    x ∈ (s.sims b).next ∨ ∃ tr ∈ (cfg.sim p).triggers, tr.2.1 = b ∧ OutData.has (s.sims p).data tr.1 = true ∧
      x = TI.act (s.sims p).outTime tr.2.2 := by
  intro b x hx
  have hcc : ∀ a, ((clearCur s p c).sims a).next = (s.sims a).next := by
    intro a; simp only [clearCur, State.emit_sims]; rw [State.upd_sims]; split <;> rfl
  have hdata : ((clearCur s p c).sims p).data = (s.sims p).data ∧ ((clearCur s p c).sims p).outTime = (s.sims p).outTime := by
    simp [clearCur]
  have key : x ∈ ((advanceAll cfg (notify cfg (clearCur s p c) p)).sims b).next →
      x ∈ (s.sims b).next ∨ ∃ tr ∈ (cfg.sim p).triggers, tr.2.1 = b ∧ OutData.has (s.sims p).data tr.1 = true ∧
        x = TI.act (s.sims p).outTime tr.2.2 := by
    intro h
    rw [advanceAll_next] at h
    rcases notify_next cfg (clearCur s p c) p b x h with h | h
    · rw [hcc] at h; exact Or.inl h
    · rw [hdata.1, hdata.2] at h; exact Or.inr h
  unfold finish at hx
  simp only at hx
  split at hx
  · exact key hx
  · split at hx
    · rw [settle_next, prune_next] at hx; exact key hx
    · rw [settle_next] at hx; exact key hx

theorem storeOutputs_next (cfg : Cfg) (s : State) (p : Sid) (ot : Int) (d : DataReply) :
    ∀ a, ((storeOutputs cfg s p ot d).sims a).next = (s.sims a).next :=
  fun a => ((storeOutputs_ctrlEq cfg s p ot d).1.fields a).2.2.1

theorem storeOutputs_data (cfg : Cfg) (s : State) (p : Sid) (ot : Int) (d : DataReply) :
    ((storeOutputs cfg s p ot d).sims p).data = d.data := by
  unfold storeOutputs; simp

theorem afterStep_next (cfg : Cfg) (s : State) (p : Sid) (c : TT) : ∀ b x, x ∈ ((afterStep cfg s p c).sims b).next →
    x ∈ (s.sims b).next ∨ ((cfg.sim p).outReq.isEmpty = true ∧ ∃ tr ∈ (cfg.sim p).triggers, tr.2.1 = b ∧
      OutData.has (s.sims p).data tr.1 = true ∧ x = TI.act (s.sims p).outTime tr.2.2) := by
  intro b x hx
  have hrt : ∀ a, ((rtCheck cfg s p c).sims a) = s.sims a := by
    intro a
    unfold rtCheck
    split
    · rfl
    · split
      · split
        · rw [State.fail_sims]
        · rfl
      · rfl
  unfold afterStep at hx
  simp only at hx
  split at hx
  · rw [hrt] at hx; exact Or.inl hx
  · split at hx
    · rename_i hempty
      rcases finish_next cfg _ p c b x hx with h | h
      · rw [hrt] at h; exact Or.inl h
      · rw [hrt] at h; exact Or.inr ⟨hempty, h⟩
    · rw [State.upd_sims] at hx
      split at hx
      · simp only at hx; rename_i hb; subst hb; rw [hrt] at hx; exact Or.inl hx
      · rw [hrt] at hx; exact Or.inl hx

/-- every scheduled step has a source -/
theorem step_sources {cfg : Cfg} {s s' : State} {a : Action} (h : step cfg s a = some s') :
    ∀ b x, x ∈ (s'.sims b).next → x ∈ (s.sims b).next ∨ SelfSrc cfg s a b x ∨ TrigSrc cfg s a b x ∨
      (∃ t, a = .setEvent b t ∧ cfg.rt.isSome) := by
  intro b x hx
  cases a with
  | start p =>
    left
    simp only [step, stepStart] at h
    split at h
    · split at h
      · cases h; rwa [advance_next] at hx
      · cases h; rwa [settle_next, advance_next] at hx
    · cases h
  | wake p =>
    left
    simp only [step, stepWake] at h
    split at h
    · cases hpc : (s.sims p).pc with
      | awaitSettle a dl =>
        simp only [hpc] at h
        split at h
        · have h0 : ∀ q, ((s.upd p fun y => { y with newer := false }).sims q).next = (s.sims q).next := by
            intro q; rw [State.upd_sims]; split <;> rfl
          have h1 : ∀ q, ((if cfg.rt.isSome then advance cfg (s.upd p fun y => { y with newer := false }) p
              else (s.upd p fun y => { y with newer := false })).sims q).next = (s.sims q).next := by
            intro q; split
            · rw [advance_next, h0]
            · exact h0 q
          generalize (if cfg.rt.isSome then advance cfg (s.upd p fun y => { y with newer := false }) p
              else (s.upd p fun y => { y with newer := false })) = s2 at h h1
          by_cases hfl : s2.failed.isSome = true
          · simp only [hfl, if_true, Option.some.injEq] at h
            subst h; rwa [h1] at hx
          · simp only [hfl, Bool.false_eq_true, if_false, Option.some.injEq] at h
            subst h; rwa [settle_next, h1] at hx
        · cases h
      | init => simp [hpc] at h
      | waitDeps t => simp [hpc] at h
      | inStep => simp [hpc] at h
      | inGet => simp [hpc] at h
      | done => simp [hpc] at h
    · cases h
  | deps p =>
    left
    simp only [step, stepDeps] at h
    split at h
    · cases hpc : (s.sims p).pc with
      | waitDeps t =>
        simp only [hpc] at h
        split at h
        · cases hnext : (s.sims p).next with
          | nil => simp [hnext] at h
          | cons c rest =>
            simp only [hnext, Option.some.injEq] at h
            subst h
            have hsub : ∀ q y, y ∈ ((s.upd p fun z => { z with cur := some c, next := rest }).sims q).next → y ∈ (s.sims q).next := by
              intro q y hy
              rw [State.upd_sims] at hy
              split at hy
              · rename_i hq; subst hq; simp only at hy; rw [hnext]; exact List.mem_cons_of_mem _ hy
              · exact hy
            unfold beginStep at hx
            simp only at hx
            split at hx
            · rw [State.fail_sims] at hx; exact hsub b x hx
            · split at hx
              · rw [State.fail_sims] at hx; exact hsub b x hx
              · obtain ⟨f, hfctrl, hsnd⟩ := getInputData_snd cfg (s.upd p fun z => { z with cur := some c, next := rest }) p c
                rw [hsnd] at hx
                simp only [State.emit_sims] at hx
                apply hsub b x
                rw [State.upd_sims] at hx
                split at hx
                · rename_i hb; subst hb
                  simp only [State.upd_same] at hx ⊢
                  have := hfctrl ({ s.sims b with cur := some c, next := rest })
                  simp only [SimSt.ctrl, Prod.mk.injEq] at this
                  rw [this.2.2.1] at hx
                  exact hx
                · rename_i hb
                  rw [State.upd_other _ _ hb] at hx
                  exact hx
        · cases h
      | init => simp [hpc] at h
      | awaitSettle a dl => simp [hpc] at h
      | inStep => simp [hpc] at h
      | inGet => simp [hpc] at h
      | done => simp [hpc] at h
    · cases h
  | setData p target entries =>
    left
    simp only [step, stepSetData] at h
    split at h
    · split at h
      · cases h; rwa [State.fail_sims] at hx
      · cases h
        rw [State.upd_sims] at hx
        split at hx <;> exact hx
    · cases h
  | getDataReq p target =>
    left
    simp only [step, stepGetDataReq] at h
    split at h
    · split at h
      · cases h; rwa [State.fail_sims] at hx
      · cases h; exact hx
    · cases h
  | setEvent p t =>
    simp only [step, stepSetEvent] at h
    split at h
    · split at h
      · cases h; left; rwa [State.fail_sims] at hx
      · rename_i hrt
        split at h
        · cases h
          obtain ⟨_, _, hother, hb⟩ := schedule_fields s p (ofWorld (cfg.sim p).depth t)
          by_cases hbp : b = p
          · subst hbp
            rcases hb with hb | ⟨_, hb⟩
            · rw [hb] at hx; exact Or.inl hx
            · right; right; right
              exact ⟨t, rfl, by cases hh : cfg.rt <;> simp_all⟩
          · rw [hother b hbp] at hx; exact Or.inl hx
        · cases h; exact Or.inl hx
    · cases h
  | stepReply p r =>
    simp only [step, stepStepReply] at h
    split at h
    · rename_i hlive
      have hpn : p < cfg.n := by
        simp only [live, Bool.and_eq_true, decide_eq_true_eq] at hlive; exact hlive.1.2
      cases hcur : (s.sims p).cur with
      | none => simp [hcur] at h
      | some c =>
        simp only [hcur, Option.some.injEq] at h
        subst h
        have h1n : ∀ q, (((s.upd p fun y => { y with last := some c }).emit (.stepped p c)).sims q).next = (s.sims q).next := by
          intro q; simp only [State.emit_sims]; rw [State.upd_sims]; split <;> rfl
        have h1d : (((s.upd p fun y => { y with last := some c }).emit (.stepped p c)).sims p).data = (s.sims p).data ∧
            (((s.upd p fun y => { y with last := some c }).emit (.stepped p c)).sims p).outTime = (s.sims p).outTime := by simp
        -- after a valid reply
        have hafter : ∀ (s2 : State), (∀ q, (s2.sims q).next = (s.sims q).next ∨ (q = p ∧ ∃ n : Int, r = .int n ∧ (TT.time c : Int) < n ∧
            n < (cfg.until_ : Int) ∧ ∀ y ∈ (s2.sims q).next, y ∈ (s.sims q).next ∨ y = ofWorld (cfg.sim p).depth n.toNat)) →
            (s2.sims p).data = (s.sims p).data → (s2.sims p).outTime = (s.sims p).outTime →
            x ∈ ((afterStep cfg s2 p c).sims b).next →
            x ∈ (s.sims b).next ∨ SelfSrc cfg s (.stepReply p r) b x ∨ TrigSrc cfg s (.stepReply p r) b x ∨
              (∃ t, Action.stepReply p r = .setEvent b t ∧ cfg.rt.isSome) := by
          intro s2 hn hd ho hx2
          rcases afterStep_next cfg s2 p c b x hx2 with h | ⟨hempty, tr, htr, hb, hhas, hxe⟩
          · rcases hn b with h' | ⟨hbp, n, hr, h1, h2, h3⟩
            · rw [h'] at h; exact Or.inl h
            · subst hbp
              rcases h3 x h with h4 | h4
              · exact Or.inl h4
              · exact Or.inr (Or.inl ⟨n, c, by rw [hr], hcur, h1, h2, h4⟩)
          · right; right; left
            rw [hd] at hhas; rw [ho] at hxe
            exact ⟨p, c, tr, (s.sims p).data, (s.sims p).outTime, hpn, hcur, htr, hb, hhas, hxe,
              Or.inr ⟨r, rfl, hempty, rfl, rfl⟩⟩
        unfold processStepReply at hx
        simp only at hx
        cases r with
        | bad => left; rw [State.fail_sims, h1n] at hx; exact hx
        | none =>
          simp only at hx
          split at hx
          · left; rw [State.fail_sims, h1n] at hx; exact hx
          · exact hafter _ (fun q => Or.inl (h1n q)) h1d.1 h1d.2 hx
        | int n =>
          simp only at hx
          split at hx
          · left; rw [State.fail_sims, h1n] at hx; exact hx
          · rename_i hnl
            split at hx
            · rename_i hlt
              obtain ⟨_, hall, hother, hb⟩ := schedule_fields ((s.upd p fun y => { y with last := some c }).emit (.stepped p c)) p
                (ofWorld (cfg.sim p).depth n.toNat)
              refine hafter _ ?_ ?_ ?_ hx
              · intro q
                by_cases hq : q = p
                · subst hq
                  right
                  refine ⟨rfl, n, rfl, by omega, hlt, ?_⟩
                  intro y hy
                  rcases hb with hb | ⟨_, hb⟩
                  · rw [hb, h1n] at hy; exact Or.inl hy
                  · rw [hb] at hy
                    rcases (mem_insertSorted _ _ y).mp hy with h | h
                    · exact Or.inr h
                    · rw [h1n] at h; exact Or.inl h
                · left; rw [hother q hq, h1n]
              · simp only [schedule]; split
                · exact h1d.1
                · simp only [State.upd_same]; exact h1d.1
              · simp only [schedule]; split
                · exact h1d.2
                · simp only [State.upd_same]; exact h1d.2
            · exact hafter _ (fun q => Or.inl (h1n q)) h1d.1 h1d.2 hx
    · cases h
  | dataReply p d =>
    simp only [step, stepDataReply] at h
    split at h
    · rename_i hlive
      have hpn : p < cfg.n := by
        simp only [live, Bool.and_eq_true, decide_eq_true_eq] at hlive; exact hlive.1.2
      cases hcur : (s.sims p).cur with
      | none => simp [hcur] at h
      | some c =>
        simp only [hcur, Option.some.injEq] at h
        subst h
        have h1n : ∀ q, (((s.upd p fun y => { y with outTime := (outTimeOf c d).2 }).emit (.got p c (outTimeOf c d).2 d.data)).sims q).next
            = (s.sims q).next := by
          intro q; simp only [State.emit_sims]; rw [State.upd_sims]; split <;> rfl
        unfold processDataReply at hx
        simp only at hx
        split at hx
        · left; rw [State.fail_sims, h1n] at hx; exact hx
        · rename_i hot
          rcases finish_next cfg _ p c b x hx with h | ⟨tr, htr, hb, hhas, hxe⟩
          · left; rw [storeOutputs_next, h1n] at h; exact h
          · right; right; left
            rw [storeOutputs_data] at hhas
            have hoT : ((storeOutputs cfg ((s.upd p fun y => { y with outTime := (outTimeOf c d).2 }).emit
                (.got p c (outTimeOf c d).2 d.data)) p (outTimeOf c d).1 d).sims p).outTime = (outTimeOf c d).2 := by
              rw [(storeOutputs_ctrlEq cfg _ p _ d).2.2]; simp
            rw [hoT] at hxe
            exact ⟨p, c, tr, d.data, (outTimeOf c d).2, hpn, hcur, htr, hb, hhas, hxe, Or.inl ⟨d, rfl, rfl, rfl, hot⟩⟩
    · cases h
  | tick n =>
    left
    simp only [step, stepTick] at h
    split at h
    · cases h
    · cases h; exact hx

end Mosaik

namespace Mosaik

/-! ### where the step in flight comes from -/

theorem advance_cur (cfg : Cfg) (s : State) (q : Sid) : ∀ a, ((advance cfg s q).sims a).cur = (s.sims a).cur := by
  intro a
  unfold advance
  simp only
  split
  · rw [State.fail_sims]
  · rw [State.upd_sims]; split <;> rfl

theorem advanceAll_cur (cfg : Cfg) (s : State) : ∀ a, ((advanceAll cfg s).sims a).cur = (s.sims a).cur := by
  unfold advanceAll
  apply foldl_inv (fun st => ∀ a, (st.sims a).cur = (s.sims a).cur)
  · intro a; rfl
  · intro st q _ h a
    split
    · exact h a
    · rw [advance_cur, h a]

theorem settle_cur (cfg : Cfg) (s : State) (p : Sid) : ∀ a, ((settle cfg s p).sims a).cur = (s.sims a).cur := by
  intro a
  unfold settle
  simp only
  have key : ∀ pc : PC, ((s.upd p fun x => { x with pc := pc }).sims a).cur = (s.sims a).cur := by
    intro pc; rw [State.upd_sims]; split <;> rfl
  split
  · exact key _
  · split
    · split
      · exact key _
      · exact key _
    · exact key _

theorem notify_cur (cfg : Cfg) (s : State) (p : Sid) : ∀ a, ((notify cfg s p).sims a).cur = (s.sims a).cur := by
  unfold notify
  apply foldl_inv (fun st => ∀ a, (st.sims a).cur = (s.sims a).cur)
  · intro a; rfl
  · intro st tr _ ih a
    split
    · rw [(schedule_nextOnly st _ _ a).2.2.1]; exact ih a
    · exact ih a

theorem finish_cur (cfg : Cfg) (s : State) (p : Sid) (c : TT) :
    ∀ a, ((finish cfg s p c).sims a).cur = if a = p then none else (s.sims a).cur := by
  intro a
  have hcc : ((clearCur s p c).sims a).cur = if a = p then none else (s.sims a).cur := by
    simp only [clearCur, State.emit_sims]; rw [State.upd_sims]; split <;> rfl
  have key : ((advanceAll cfg (notify cfg (clearCur s p c) p)).sims a).cur = if a = p then none else (s.sims a).cur := by
    rw [advanceAll_cur, notify_cur, hcc]
  unfold finish
  simp only
  split
  · exact key
  · split
    · rw [settle_cur, ((prune_ctrlEq cfg _).fields a).2.2.2.1]; exact key
    · rw [settle_cur]; exact key

theorem afterStep_cur (cfg : Cfg) (s : State) (p : Sid) (c : TT) :
    ∀ a, ((afterStep cfg s p c).sims a).cur = (s.sims a).cur ∨ ((afterStep cfg s p c).sims a).cur = none := by
  intro a
  have hrt : ∀ b, ((rtCheck cfg s p c).sims b) = s.sims b := by
    intro b
    unfold rtCheck
    split
    · rfl
    · split
      · split
        · rw [State.fail_sims]
        · rfl
      · rfl
  unfold afterStep
  simp only
  split
  · rw [hrt]; exact Or.inl rfl
  · split
    · rw [finish_cur]
      split
      · exact Or.inr rfl
      · rw [hrt]; exact Or.inl rfl
    · rw [State.upd_sims]
      split
      · simp only; rename_i hb; subst hb; rw [hrt]; exact Or.inl rfl
      · rw [hrt]; exact Or.inl rfl

/-- the step in flight was in flight before, or was the head of the schedule -/
theorem step_cur_sources {cfg : Cfg} {s s' : State} {a : Action} (h : step cfg s a = some s') :
    ∀ b c, (s'.sims b).cur = some c → (s.sims b).cur = some c ∨ (s.sims b).next.head? = some c := by
  intro b x hx
  cases a with
  | start p =>
    left
    simp only [step, stepStart] at h
    split at h
    · split at h
      · cases h; rwa [advance_cur] at hx
      · cases h; rwa [settle_cur, advance_cur] at hx
    · cases h
  | wake p =>
    left
    simp only [step, stepWake] at h
    split at h
    · cases hpc : (s.sims p).pc with
      | awaitSettle a dl =>
        simp only [hpc] at h
        split at h
        · have h0 : ∀ q, ((s.upd p fun y => { y with newer := false }).sims q).cur = (s.sims q).cur := by
            intro q; rw [State.upd_sims]; split <;> rfl
          have h1 : ∀ q, ((if cfg.rt.isSome then advance cfg (s.upd p fun y => { y with newer := false }) p
              else (s.upd p fun y => { y with newer := false })).sims q).cur = (s.sims q).cur := by
            intro q; split
            · rw [advance_cur, h0]
            · exact h0 q
          generalize (if cfg.rt.isSome then advance cfg (s.upd p fun y => { y with newer := false }) p
              else (s.upd p fun y => { y with newer := false })) = s2 at h h1
          by_cases hfl : s2.failed.isSome = true
          · simp only [hfl, if_true, Option.some.injEq] at h
            subst h; rwa [h1] at hx
          · simp only [hfl, Bool.false_eq_true, if_false, Option.some.injEq] at h
            subst h; rwa [settle_cur, h1] at hx
        · cases h
      | init => simp [hpc] at h
      | waitDeps t => simp [hpc] at h
      | inStep => simp [hpc] at h
      | inGet => simp [hpc] at h
      | done => simp [hpc] at h
    · cases h
  | deps p =>
    simp only [step, stepDeps] at h
    split at h
    · cases hpc : (s.sims p).pc with
      | waitDeps t =>
        simp only [hpc] at h
        split at h
        · cases hnext : (s.sims p).next with
          | nil => simp [hnext] at h
          | cons c rest =>
            simp only [hnext, Option.some.injEq] at h
            subst h
            have hsub : ∀ q y, ((s.upd p fun z => { z with cur := some c, next := rest }).sims q).cur = some y →
                (s.sims q).cur = some y ∨ (q = p ∧ y = c) := by
              intro q y hy
              rw [State.upd_sims] at hy
              split at hy
              · rename_i hq; simp only [Option.some.injEq] at hy; exact Or.inr ⟨hq, hy.symm⟩
              · exact Or.inl hy
            have hfin : (s.sims b).cur = some x ∨ (b = p ∧ x = c) := by
              unfold beginStep at hx
              simp only at hx
              split at hx
              · rw [State.fail_sims] at hx; exact hsub b x hx
              · split at hx
                · rw [State.fail_sims] at hx; exact hsub b x hx
                · obtain ⟨f, hfctrl, hsnd⟩ := getInputData_snd cfg (s.upd p fun z => { z with cur := some c, next := rest }) p c
                  rw [hsnd] at hx
                  simp only [State.emit_sims] at hx
                  apply hsub b x
                  rw [State.upd_sims] at hx
                  split at hx
                  · rename_i hb; subst hb
                    simp only [State.upd_same] at hx ⊢
                    have := hfctrl ({ s.sims b with cur := some c, next := rest })
                    simp only [SimSt.ctrl, Prod.mk.injEq] at this
                    rw [this.2.2.2.1] at hx
                    exact hx
                  · rename_i hb
                    rw [State.upd_other _ _ hb] at hx
                    exact hx
            rcases hfin with h1 | ⟨hb, hxc⟩
            · exact Or.inl h1
            · subst hb; subst hxc
              right; rw [hnext]; rfl
        · cases h
      | init => simp [hpc] at h
      | awaitSettle a dl => simp [hpc] at h
      | inStep => simp [hpc] at h
      | inGet => simp [hpc] at h
      | done => simp [hpc] at h
    · cases h
  | setData p target entries =>
    left
    simp only [step, stepSetData] at h
    split at h
    · split at h
      · cases h; rwa [State.fail_sims] at hx
      · cases h
        rw [State.upd_sims] at hx
        split at hx <;> exact hx
    · cases h
  | getDataReq p target =>
    left
    simp only [step, stepGetDataReq] at h
    split at h
    · split at h
      · cases h; rwa [State.fail_sims] at hx
      · cases h; exact hx
    · cases h
  | setEvent p t =>
    left
    simp only [step, stepSetEvent] at h
    split at h
    · split at h
      · cases h; rwa [State.fail_sims] at hx
      · split at h
        · cases h
          rwa [(schedule_nextOnly s p _ b).2.2.1] at hx
        · cases h; exact hx
    · cases h
  | stepReply p r =>
    left
    simp only [step, stepStepReply] at h
    split at h
    · cases hcur : (s.sims p).cur with
      | none => simp [hcur] at h
      | some c =>
        simp only [hcur, Option.some.injEq] at h
        subst h
        have h1n : ∀ q, (((s.upd p fun y => { y with last := some c }).emit (.stepped p c)).sims q).cur = (s.sims q).cur := by
          intro q; simp only [State.emit_sims]; rw [State.upd_sims]; split <;> rfl
        have hafter : ∀ (s2 : State), (∀ q, (s2.sims q).cur = (s.sims q).cur) →
            ((afterStep cfg s2 p c).sims b).cur = some x → (s.sims b).cur = some x := by
          intro s2 hn hx2
          rcases afterStep_cur cfg s2 p c b with h | h
          · rw [h, hn] at hx2; exact hx2
          · rw [h] at hx2; cases hx2
        unfold processStepReply at hx
        simp only at hx
        cases r with
        | bad => rw [State.fail_sims, h1n] at hx; exact hx
        | none =>
          simp only at hx
          split at hx
          · rw [State.fail_sims, h1n] at hx; exact hx
          · exact hafter _ h1n hx
        | int n =>
          simp only at hx
          split at hx
          · rw [State.fail_sims, h1n] at hx; exact hx
          · split at hx
            · refine hafter _ ?_ hx
              intro q; rw [(schedule_nextOnly _ p _ q).2.2.1, h1n]
            · exact hafter _ h1n hx
    · cases h
  | dataReply p d =>
    left
    simp only [step, stepDataReply] at h
    split at h
    · cases hcur : (s.sims p).cur with
      | none => simp [hcur] at h
      | some c =>
        simp only [hcur, Option.some.injEq] at h
        subst h
        have h1n : ∀ q, (((s.upd p fun y => { y with outTime := (outTimeOf c d).2 }).emit (.got p c (outTimeOf c d).2 d.data)).sims q).cur
            = (s.sims q).cur := by
          intro q; simp only [State.emit_sims]; rw [State.upd_sims]; split <;> rfl
        unfold processDataReply at hx
        simp only at hx
        split at hx
        · rw [State.fail_sims, h1n] at hx; exact hx
        · rw [finish_cur] at hx
          split at hx
          · cases hx
          · rw [((storeOutputs_ctrlEq cfg _ p _ d).1.fields b).2.2.2.1, h1n] at hx; exact hx
    · cases h
  | tick n =>
    left
    simp only [step, stepTick] at h
    split at h
    · cases h
    · cases h; exact hx

end Mosaik
