/-
The run form of the `max_advance` promise without any restriction on the continuation (C07).

`taintStep` defines which steps are *traceable to the simulator `p` itself*: a step scheduled by
`p`'s own returned next step or by an output of a step of `p`, and — transitively — a step
scheduled by the returned next step or an output of a step that is itself traceable to `p`.
`ShieldT`: in every state reached from the promise state by ANY actions, every step in flight or
scheduled that could make `p` step at a time `≤ m` — of `p` itself or, delayed by the minimal
trigger-path delay, of one of its triggering ancestors — is traceable to `p` (or is the promised step).
-/
import MosaikProofs.Sched.Shield
namespace Mosaik

abbrev Taint := List (Sid × TT)

/-- the steps the action schedules, if its cause is traceable to `p` -/
def taintStep (cfg : Cfg) (p : Sid) (T : Taint) (s : State) (a : Action) : Taint :=
  match a with
  | .stepReply q r =>
    match (s.sims q).cur with
    | none => T
    | some c =>
      if q = p ∨ (q, c) ∈ T then
        (match r with
          | .int n => [(q, ofWorld (cfg.sim q).depth n.toNat)]
          | _ => []) ++
        (if (cfg.sim q).outReq.isEmpty then
          ((cfg.sim q).triggers.filter (fun tr => OutData.has (s.sims q).data tr.1)).map
            (fun tr => (tr.2.1, TI.act (s.sims q).outTime tr.2.2))
        else []) ++ T
      else T
  | .dataReply q d =>
    match (s.sims q).cur with
    | none => T
    | some c =>
      if q = p ∨ (q, c) ∈ T then
        ((cfg.sim q).triggers.filter (fun tr => OutData.has d.data tr.1)).map
          (fun tr => (tr.2.1, TI.act (outTimeOf c d).2 tr.2.2)) ++ T
      else T
  | _ => T

theorem taintStep_mono (cfg : Cfg) (p : Sid) (T : Taint) (s : State) (a : Action) : ∀ x ∈ T, x ∈ taintStep cfg p T s a := by
  intro x hx
  unfold taintStep
  cases a with
  | stepReply q r =>
    simp only
    split
    · exact hx
    · split
      · exact List.mem_append_right _ hx
      · exact hx
  | dataReply q d =>
    simp only
    split
    · exact hx
    · split
      · exact List.mem_append_right _ hx
      · exact hx
  | _ => exact hx

/-- the taint after a run -/
def taintRun (cfg : Cfg) (p : Sid) : Taint → State → List Action → Taint
  | T, _, [] => T
  | T, s, a :: as => match step cfg s a with
    | none => T
    | some s' => taintRun cfg p (taintStep cfg p T s a) s' as

structure ShieldT (cfg : Cfg) (s : State) (p : Sid) (c : TT) (m : Nat) (T : Taint) : Prop where
  cur : ∀ ad ∈ (cfg.sim p).trigAnc, ad.1 ≠ p → ∀ x, (s.sims ad.1).cur = some x →
    m < TT.time (TI.act x ad.2) ∨ (ad.1, x) ∈ T
  next : ∀ ad ∈ (cfg.sim p).trigAnc, ad.1 ≠ p → ∀ x ∈ (s.sims ad.1).next,
    m < TT.time (TI.act x ad.2) ∨ (ad.1, x) ∈ T
  own : ∀ x ∈ (s.sims p).next, m < TT.time x ∨ (p, x) ∈ T
  pcur : ∀ x, (s.sims p).cur = some x → x = c ∨ m < TT.time x ∨ (p, x) ∈ T

theorem ShieldT.of_shield {cfg : Cfg} {s : State} {p : Sid} {c : TT} {m : Nat} (h : Shield cfg s p c m) : ShieldT cfg s p c m [] :=
  ⟨fun ad had hne x hx => Or.inl (h.cur ad had hne x hx), fun ad had hne x hx => Or.inl (h.next ad had hne x hx),
   fun x hx => Or.inl (h.own x hx), fun x hx => (h.pcur x hx).elim Or.inl (fun h => Or.inr (Or.inl h))⟩

theorem shieldT_step {cfg : Cfg} (hw : WFCfg cfg) {s s' : State} {a : Action} {p : Sid} (hp : p < cfg.n) {c : TT} {m : Nat}
    {T : Taint} (hs : ShieldT cfg s p c m T) (h : step cfg s a = some s') :
    ShieldT cfg s' p c m (taintStep cfg p T s a) := by
  have mono := taintStep_mono cfg p T s a
  -- a trigger delivered to `b`: traceable, or its source's step in flight is beyond the bound
  have trigCase : ∀ b x, TrigSrc cfg s a b x → (b, x) ∈ taintStep cfg p T s a ∨
      ∃ q cq tr outT, q < cfg.n ∧ q ≠ p ∧ (s.sims q).cur = some cq ∧ (q, cq) ∉ T ∧ tr ∈ (cfg.sim q).triggers ∧ tr.2.1 = b ∧
        x = TI.act outT tr.2.2 ∧ cq ≤ outT := by
    rintro b x ⟨q, cq, tr, data, outT, hqn, hcur, htr, hb, hhas, hx, hsrc⟩
    have hle : cq ≤ outT := by
      rcases hsrc with ⟨d, _, _, ho, hot⟩ | ⟨r, _, hempty, _, _⟩
      · rw [ho]; exact le_outTimeOf cq d hot
      · rw [hw.trigReq q hqn hempty] at htr; cases htr
    by_cases htaint : q = p ∨ (q, cq) ∈ T
    · left
      rcases hsrc with ⟨d, ha, hd, ho, _⟩ | ⟨r, ha, hempty, hd, ho⟩
      · subst ha
        unfold taintStep
        simp only [hcur, htaint, if_true]
        apply List.mem_append_left
        rw [List.mem_map]
        refine ⟨tr, ?_, by rw [hb, hx, ho]⟩
        rw [List.mem_filter]
        exact ⟨htr, by rw [← hd]; exact hhas⟩
      · rw [hw.trigReq q hqn hempty] at htr; cases htr
    · right
      have h1 : q ≠ p := fun e => htaint (Or.inl e)
      have h2 : (q, cq) ∉ T := fun e => htaint (Or.inr e)
      exact ⟨q, cq, tr, outT, hqn, h1, hcur, h2, htr, hb, hx, hle⟩
  have noEvent : ∀ b, ¬ (∃ t, a = .setEvent b t ∧ cfg.rt.isSome) := by
    rintro b ⟨t, _, hrt⟩; rw [hw.noRt] at hrt; cases hrt
  have nextAnc : ∀ ad ∈ (cfg.sim p).trigAnc, ad.1 ≠ p → ∀ x ∈ (s'.sims ad.1).next,
      m < TT.time (TI.act x ad.2) ∨ (ad.1, x) ∈ taintStep cfg p T s a := by
    intro ad had hne x hx
    rcases step_sources h ad.1 x hx with h1 | ⟨n, cb, ha, hcur, hlt, _, hxe⟩ | h3 | h4
    · exact (hs.next ad had hne x h1).imp id (mono _)
    · -- the ancestor's own returned next step
      rcases hs.cur ad had hne cb hcur with h1 | h1
      · left
        have hdep : 0 < (cfg.sim ad.1).depth := hw.depth _ (hw.ancRange p hp ad had)
        have hct : cb < x := by
          rw [hxe]; apply TT.lt_of_time_lt; rw [time_ofWorld hdep]; omega
        have := TT.time_mono (TI.act_mono_left ad.2 (TT.le_of_lt hct))
        omega
      · right
        subst ha
        unfold taintStep
        simp only [hcur, h1, or_true, if_true]
        apply List.mem_append_left
        apply List.mem_append_left
        rw [hxe]; exact List.mem_singleton.mpr rfl
    · rcases trigCase ad.1 x h3 with h5 | ⟨q, cq, tr, outT, hqn, hqp, hcur, hnt, htr, hb, hx2, hle⟩
      · exact Or.inr h5
      · left
        obtain ⟨⟨d', hd', hle'⟩, hcut⟩ := hw.trans q hqn tr htr p hp ad had hb.symm
        rcases hs.cur (q, d') hd' hqp cq hcur with h1 | h1
        · have h2 : TI.act cq d' ≤ TI.act cq (TI.add tr.2.2 ad.2) := TI.act_mono_right cq hle'
          rw [← TI.act_act cq tr.2.2 ad.2 hcut] at h2
          have h3' : TI.act (TI.act cq tr.2.2) ad.2 ≤ TI.act x ad.2 := by
            rw [hx2]; exact TI.act_mono_left _ (TI.act_mono_left _ hle)
          have := TT.time_mono (TT.le_trans h2 h3')
          simp only at h1
          omega
        · exact absurd h1 hnt
    · exact absurd h4 (noEvent _)
  have ownNext : ∀ x ∈ (s'.sims p).next, m < TT.time x ∨ (p, x) ∈ taintStep cfg p T s a := by
    intro x hx
    rcases step_sources h p x hx with h1 | ⟨n, cb, ha, hcur, hlt, _, hxe⟩ | h3 | h4
    · exact (hs.own x h1).imp id (mono _)
    · right
      subst ha
      unfold taintStep
      simp only [hcur, true_or, if_true]
      apply List.mem_append_left
      apply List.mem_append_left
      rw [hxe]; exact List.mem_singleton.mpr rfl
    · rcases trigCase p x h3 with h5 | ⟨q, cq, tr, outT, hqn, hqp, hcur, hnt, htr, hb, hx2, hle⟩
      · exact Or.inr h5
      · left
        obtain ⟨d', hd', hle'⟩ := hw.direct q hqn tr htr
        rw [hb] at hd'
        rcases hs.cur (q, d') hd' hqp cq hcur with h1 | h1
        · have h2 : TI.act cq d' ≤ x := by
            rw [hx2]
            exact TT.le_trans (TI.act_mono_right cq hle') (TI.act_mono_left _ hle)
          have := TT.time_mono h2
          simp only at h1
          omega
        · exact absurd h1 hnt
    · exact absurd h4 (noEvent _)
  constructor
  · intro ad had hne x hx
    rcases step_cur_sources h ad.1 x hx with h1 | h1
    · exact (hs.cur ad had hne x h1).imp id (mono _)
    · exact (hs.next ad had hne x (List.mem_of_mem_head? h1)).imp id (mono _)
  · exact nextAnc
  · exact ownNext
  · intro x hx
    rcases step_cur_sources h p x hx with h1 | h1
    · rcases hs.pcur x h1 with h2 | h2 | h2
      · exact Or.inl h2
      · exact Or.inr (Or.inl h2)
      · exact Or.inr (Or.inr (mono _ h2))
    · exact Or.inr ((hs.own x (List.mem_of_mem_head? h1)).imp id (mono _))

/-- … along every run -/
theorem shieldT_exec {cfg : Cfg} (hw : WFCfg cfg) {p : Sid} (hp : p < cfg.n) {c : TT} {m : Nat} :
    ∀ (as : List Action) {s s' : State} {T : Taint}, ShieldT cfg s p c m T → exec cfg s as = some s' →
      ShieldT cfg s' p c m (taintRun cfg p T s as) := by
  intro as
  induction as with
  | nil => intro s s' T hs he; simp only [exec, Option.some.injEq] at he; subst he; exact hs
  | cons a as ih =>
    intro s s' T hs he
    simp only [exec] at he
    unfold taintRun
    cases hst : step cfg s a with
    | none => rw [hst] at he; cases he
    | some s1 =>
      rw [hst] at he
      exact ih (shieldT_step hw hp hs hst) he

end Mosaik
