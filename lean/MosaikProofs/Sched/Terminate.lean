/-
Termination (C05): a run cannot go on for ever.

Every action other than the simulators' asynchronous requests strictly decreases a potential that is
bounded by a function of the configuration, so the length of a run without asynchronous requests is
bounded (`run_length_bounded`).  The potential of a simulator combines
* how much of its life cycle is still ahead (its process not yet started, steps not yet begun — at
  most `until · max_loop^(depth−1)` by `steps_bounded` —, answers to `step` / `get_data` not yet
  received), weighted `n + 1`, and
* whether its process, waiting in `next_step_settled`, can be woken right now.
A wake-up uses up the second part and cannot be repeated before another action has happened; every
other action uses up at least one unit of the first part and can make at most every other process
wakeable.
-/
import MosaikProofs.Sched.Prune
namespace Mosaik

/-! ### sums over the simulators -/

def sumTo : Nat → (Nat → Nat) → Nat
  | 0, _ => 0
  | n + 1, f => sumTo n f + f n

theorem sumTo_le {f g : Nat → Nat} : ∀ (n : Nat), (∀ q, q < n → f q ≤ g q) → sumTo n f ≤ sumTo n g
  | 0, _ => Nat.le_refl _
  | n + 1, h => by
    simp only [sumTo]
    have := sumTo_le n (fun q hq => h q (by omega))
    have := h n (by omega)
    omega

/-- one summand drops by `k`, every other one rises by at most one -/
theorem sumTo_change {f f' : Nat → Nat} (k : Nat) : ∀ (n p : Nat), p < n → f' p + k ≤ f p →
    (∀ q, q < n → q ≠ p → f' q ≤ f q + 1) → sumTo n f' + k ≤ sumTo n f + (n - 1)
  | 0, _, hp, _, _ => by omega
  | n + 1, p, hp, hpd, hq => by
    simp only [sumTo]
    by_cases hpn : p = n
    · subst hpn
      have h1 : sumTo p f' ≤ sumTo p (fun q => f q + 1) := sumTo_le p (fun q hq' => hq q (by omega) (by omega))
      have h2 : ∀ m, sumTo m (fun q => f q + 1) = sumTo m f + m := by
        intro m; induction m with
        | zero => rfl
        | succ m ih => simp only [sumTo, ih]; omega
      rw [h2] at h1
      omega
    · have := sumTo_change k n p (by omega) hpd (fun q hq' hne => hq q (by omega) hne)
      have := hq n (by omega) (fun e => hpn e.symm)
      omega

/-- one summand drops by `k`, the others stay -/
theorem sumTo_drop {f f' : Nat → Nat} (k : Nat) : ∀ (n p : Nat), p < n → f' p + k ≤ f p →
    (∀ q, q < n → q ≠ p → f' q = f q) → sumTo n f' + k ≤ sumTo n f
  | 0, _, hp, _, _ => by omega
  | n + 1, p, hp, hpd, hq => by
    simp only [sumTo]
    by_cases hpn : p = n
    · subst hpn
      have h1 : sumTo p f' ≤ sumTo p f := sumTo_le p (fun q hq' => Nat.le_of_eq (hq q (by omega) (by omega)))
      omega
    · have := sumTo_drop k n p (by omega) hpd (fun q hq' hne => hq q (by omega) hne)
      have := hq n (by omega) (fun e => hpn e.symm)
      omega

/-! ### the potential -/

/-- how far a simulator has come in its life cycle -/
def lifeDone (x : SimSt) : Nat :=
  (if x.pc = .init then 0 else 1) + 3 * x.begun.length - (match x.pc with | .inStep => 2 | .inGet => 1 | _ => 0)

/-- the most it can reach -/
def lifeCap (cfg : Cfg) (p : Sid) : Nat := 1 + 3 * (cfg.until_ * cfg.maxLoop ^ ((cfg.sim p).depth - 1))

/-- the process can be woken now -/
def wakeable (cfg : Cfg) (s : State) (p : Sid) : Bool := (step cfg s (.wake p)).isSome

def potential (cfg : Cfg) (s : State) (p : Sid) : Nat :=
  (cfg.n + 1) * (lifeCap cfg p - lifeDone (s.sims p)) + (if wakeable cfg s p then 1 else 0)

def totalPotential (cfg : Cfg) (s : State) : Nat := sumTo cfg.n (potential cfg s)

/-- program counters a process has after `next_step_settled` -/
def Settled : PC → Prop
  | .done => True
  | .waitDeps _ => True
  | .awaitSettle _ _ => True
  | _ => False

theorem settle_settled (cfg : Cfg) (s : State) (p : Sid) : Settled ((settle cfg s p).sims p).pc := by
  unfold settle
  simp only
  split
  · simp [Settled]
  · split
    · split <;> simp [Settled]
    · simp [Settled]

theorem lifeDone_le_cap {cfg : Cfg} (hw : WFCfg cfg) (hs : WFShape cfg) {s : State} (hr : Reach cfg s) (hnf : s.failed = none)
    {p : Sid} (hp : p < cfg.n) : lifeDone (s.sims p) ≤ lifeCap cfg p := by
  have := steps_bounded hw hs hr hnf p hp
  unfold lifeDone lifeCap
  split <;> split <;> omega

/-! ### what the acting simulator gains -/

theorem finish_settled {cfg : Cfg} {s : State} {p : Sid} {c : TT} (hnf : (finish cfg s p c).failed = none) :
    Settled ((finish cfg s p c).sims p).pc := by
  unfold finish at hnf ⊢
  simp only at hnf ⊢
  split
  · rename_i hfail
    simp only [hfail, if_true] at hnf
    rw [hnf] at hfail; cases hfail
  · exact settle_settled cfg _ p

theorem afterStep_pc {cfg : Cfg} {s : State} {p : Sid} {c : TT} (hnf : (afterStep cfg s p c).failed = none) :
    ((afterStep cfg s p c).sims p).pc = .inGet ∨ Settled ((afterStep cfg s p c).sims p).pc := by
  unfold afterStep at hnf ⊢
  simp only at hnf ⊢
  split
  · rename_i hfail
    simp only [hfail, if_true] at hnf
    rw [hnf] at hfail; cases hfail
  · rename_i hfail
    simp only [hfail, if_false] at hnf
    split
    · rename_i hempty
      simp only [hempty, if_true] at hnf
      exact Or.inr (finish_settled hnf)
    · left; simp

theorem lifeDone_settled {x : SimSt} (h : Settled x.pc) : lifeDone x = 1 + 3 * x.begun.length := by
  unfold lifeDone
  cases hpc : x.pc <;> rw [hpc] at h <;> simp [Settled] at h <;> simp

/-- the actions that are not asynchronous requests of a simulator (and not clock ticks) -/
def Action.sched : Action → Prop
  | .start _ => True
  | .wake _ => True
  | .deps _ => True
  | .stepReply _ _ => True
  | .dataReply _ _ => True
  | _ => False

/-- every scheduling action other than a wake-up advances its simulator's life cycle -/
theorem actor_life {cfg : Cfg} (hw : WFCfg cfg) {s s' : State} {a : Action} (hr : Reach cfg s) (hnf0 : s.failed = none)
    (h : step cfg s a = some s') (hnf : s'.failed = none) (hs : a.sched) (hnw : ∀ p, a ≠ .wake p) :
    ∃ p, a.actor = some p ∧ p < cfg.n ∧ lifeDone (s.sims p) + 1 ≤ lifeDone (s'.sims p) := by
  obtain ⟨hcore, hpcs⟩ := reach_good hw hr hnf0
  have hfr := step_frame hw (reach_good hw hr) h hnf
  -- a step in flight has begun
  have hlen : ∀ p, p < cfg.n → ((s.sims p).pc = .inStep ∨ (s.sims p).pc = .inGet) → 1 ≤ (s.sims p).begun.length := by
    intro p hp hpc
    obtain ⟨c, hc⟩ := (hpcs p hp).inflight hpc
    have := (hcore p hp).cur_begun c hc
    exact List.length_pos_of_mem this
  cases a with
  | start p =>
    refine ⟨p, rfl, ?_⟩
    simp only [step, stepStart] at h
    split at h
    · rename_i hguard
      simp only [Bool.and_eq_true, beq_iff_eq] at hguard
      refine ⟨live_lt hguard.1, ?_⟩
      have hbeg : (s'.sims p).begun = (s.sims p).begun := by
        rcases hfr with hl | ⟨q, c, haq, _⟩
        · exact hl.begun p
        · cases haq
      split at h
      · rename_i hf; cases h; rw [hnf] at hf; cases hf
      · cases h
        rw [lifeDone_settled (settle_settled cfg _ p), hbeg]
        unfold lifeDone
        rw [hguard.2]
        simp
        omega
    · cases h
  | wake p => exact absurd rfl (hnw p)
  | deps p =>
    refine ⟨p, rfl, ?_⟩
    rcases hfr with hl | ⟨q, c, haq, hq, hpc, hdr, _, _, _, _, _, hbeg, _, _⟩
    · -- a `deps` action that does not fail begins a step
      exfalso
      simp only [step, stepDeps] at h
      split at h
      · cases hpc : (s.sims p).pc with
        | waitDeps t =>
          simp only [hpc] at h
          split at h
          · cases hn : (s.sims p).next with
            | nil => simp [hn] at h
            | cons c rest =>
              simp only [hn, Option.some.injEq] at h
              subst h
              have h1 := hl.begun p
              rw [(beginStep_bb cfg s p c rest hnf).2] at h1
              simp at h1
          · cases h
        | init => simp [hpc] at h
        | awaitSettle a dl => simp [hpc] at h
        | inStep => simp [hpc] at h
        | inGet => simp [hpc] at h
        | done => simp [hpc] at h
      · cases h
    · cases haq
      refine ⟨hq, ?_⟩
      have hpc' : (s'.sims p).pc = .inStep := by
        have hlive : live cfg s p = true := live_iff.mpr ⟨hnf0, hq⟩
        simp only [step, stepDeps, hlive, if_true, hpc, hdr] at h
        cases hn : (s.sims p).next with
        | nil => simp [hn] at h
        | cons c2 rest =>
          simp only [hn, Option.some.injEq] at h
          subst h
          exact beginStep_pc cfg s p c2 rest hnf
      unfold lifeDone
      rw [hpc', hpc, hbeg]
      simp only [List.length_cons]
      simp
      omega
  | stepReply p r =>
    refine ⟨p, rfl, ?_⟩
    have hbeg : (s'.sims p).begun = (s.sims p).begun := by
      rcases hfr with hl | ⟨q, c, haq, _⟩
      · exact hl.begun p
      · cases haq
    simp only [step, stepStepReply] at h
    split at h
    · rename_i hguard
      simp only [Bool.and_eq_true, beq_iff_eq] at hguard
      have hp := live_lt hguard.1
      refine ⟨hp, ?_⟩
      have hl1 := hlen p hp (Or.inl hguard.2)
      cases hcur : (s.sims p).cur with
      | none => simp [hcur] at h
      | some c =>
        simp only [hcur, Option.some.injEq] at h
        subst h
        have hafter : ∀ s2 : State, (afterStep cfg s2 p c).failed = none →
            ((afterStep cfg s2 p c).sims p).begun = (s.sims p).begun →
            lifeDone (s.sims p) + 1 ≤ lifeDone ((afterStep cfg s2 p c).sims p) := by
          intro s2 hnf2 hb2
          rcases afterStep_pc hnf2 with hg | hst
          · unfold lifeDone
            rw [hg, hguard.2, hb2]
            simp
            omega
          · rw [lifeDone_settled hst, hb2]
            unfold lifeDone
            rw [hguard.2]
            simp
            omega
        unfold processStepReply at hnf hbeg ⊢
        simp only at hnf hbeg ⊢
        cases r with
        | bad =>
          simp only at hnf
          have := State.fail_failed ((s.upd p fun y => { y with last := some c }).emit (.stepped p c)) (.badReply p .notInt)
          rw [hnf] at this; cases this
        | none =>
          simp only at hnf hbeg ⊢
          split
          · rename_i hty; simp only [hty, if_true] at hnf
            have := State.fail_failed ((s.upd p fun y => { y with last := some c }).emit (.stepped p c)) (.badReply p .noNextStep)
            rw [hnf] at this; cases this
          · rename_i hty; simp only [hty, if_false] at hnf hbeg
            exact hafter _ hnf hbeg
        | int n =>
          simp only at hnf hbeg ⊢
          split
          · rename_i hle; simp only [hle, if_true] at hnf
            have := State.fail_failed ((s.upd p fun y => { y with last := some c }).emit (.stepped p c)) (.badReply p .notLater)
            rw [hnf] at this; cases this
          · rename_i hle; simp only [hle, if_false] at hnf hbeg
            split
            · rename_i hlt; simp only [hlt, if_true] at hnf hbeg
              exact hafter _ hnf hbeg
            · rename_i hlt; simp only [hlt, if_false] at hnf hbeg
              exact hafter _ hnf hbeg
    · cases h
  | dataReply p d =>
    refine ⟨p, rfl, ?_⟩
    have hbeg : (s'.sims p).begun = (s.sims p).begun := by
      rcases hfr with hl | ⟨q, c, haq, _⟩
      · exact hl.begun p
      · cases haq
    simp only [step, stepDataReply] at h
    split at h
    · rename_i hguard
      simp only [Bool.and_eq_true, beq_iff_eq] at hguard
      have hp := live_lt hguard.1
      refine ⟨hp, ?_⟩
      have hl1 := hlen p hp (Or.inr hguard.2)
      cases hcur : (s.sims p).cur with
      | none => simp [hcur] at h
      | some c =>
        simp only [hcur, Option.some.injEq] at h
        subst h
        unfold processDataReply at hnf hbeg ⊢
        simp only at hnf hbeg ⊢
        split
        · rename_i hot; simp only [hot, if_true] at hnf
          have := State.fail_failed ((s.upd p fun y => { y with outTime := (outTimeOf c d).2 }).emit (.got p c (outTimeOf c d).2 d.data))
            (.badReply p .outputTimeEarly)
          rw [hnf] at this; cases this
        · rename_i hot; simp only [hot, if_false] at hnf hbeg
          rw [lifeDone_settled (finish_settled hnf), hbeg]
          unfold lifeDone
          rw [hguard.2]
          simp
          omega
    · cases h
  | setData p t e => cases hs
  | getDataReq p t => cases hs
  | setEvent p t => cases hs
  | tick n => cases hs

/-! ### wake-ups -/

theorem wakeable_iff {cfg : Cfg} {s : State} {q : Sid} : wakeable cfg s q = true ↔
    (s.failed = none ∧ q < cfg.n) ∧ ∃ a dl, (s.sims q).pc = .awaitSettle a dl ∧
      (a ≤ (s.sims q).progress ∨ (s.sims q).newer = true ∨ timedOut dl s.clock = true) := by
  unfold wakeable
  simp only [step, stepWake]
  constructor
  · intro h
    split at h
    · rename_i hlive
      refine ⟨live_iff.mp hlive, ?_⟩
      cases hpc : (s.sims q).pc with
      | awaitSettle a dl =>
        simp only [hpc] at h
        split at h
        · rename_i hc; exact ⟨a, dl, rfl, hc⟩
        · simp at h
      | init => simp [hpc] at h
      | waitDeps t => simp [hpc] at h
      | inStep => simp [hpc] at h
      | inGet => simp [hpc] at h
      | done => simp [hpc] at h
    · simp at h
  · rintro ⟨hl, a, dl, hpc, hc⟩
    rw [if_pos (live_iff.mpr hl)]
    simp only [hpc, hc, if_true]
    exact ite_some_isSome _ _ _

theorem settle_newer (cfg : Cfg) (s : State) (p : Sid) : ((settle cfg s p).sims p).newer = (s.sims p).newer := by
  unfold settle
  simp only
  split
  · simp
  · split
    · split <;> simp
    · simp

theorem settle_clock (cfg : Cfg) (s : State) (p : Sid) : (settle cfg s p).clock = s.clock := by
  unfold settle
  simp only
  split
  · rfl
  · split
    · split <;> rfl
    · rfl

theorem settle_failed (cfg : Cfg) (s : State) (p : Sid) : (settle cfg s p).failed = s.failed := by
  unfold settle
  simp only
  split
  · rfl
  · split
    · split <;> rfl
    · rfl

/-- a wake-up: the life cycle stays, the process cannot be woken again at once, nobody else is affected -/
theorem wake_effect {cfg : Cfg} (hw : WFCfg cfg) {s s' : State} {p : Sid} (hr : Reach cfg s) (hnf0 : s.failed = none)
    (h : step cfg s (.wake p) = some s') (hnf : s'.failed = none) :
    p < cfg.n ∧ lifeDone (s'.sims p) = lifeDone (s.sims p) ∧ wakeable cfg s p = true ∧ wakeable cfg s' p = false ∧
    ∀ q, q ≠ p → lifeDone (s'.sims q) = lifeDone (s.sims q) ∧ wakeable cfg s' q = wakeable cfg s q := by
  obtain ⟨hcore, hpcs⟩ := reach_good hw hr hnf0
  have hwk : wakeable cfg s p = true := by unfold wakeable; rw [h]; rfl
  obtain ⟨⟨_, hp⟩, a, dl, hpc, hcond⟩ := wakeable_iff.mp hwk
  have hrt : cfg.rt.isSome = false := by rw [hw.noRt]; rfl
  have hlive : live cfg s p = true := live_iff.mpr ⟨hnf0, hp⟩
  simp only [step, stepWake, hlive, if_true, hpc, hcond, hrt, Bool.false_eq_true, if_false, State.upd_failed] at h
  have hfs : s.failed.isSome = false := by rw [hnf0]; rfl
  simp only [hfs, Bool.false_eq_true, if_false, Option.some.injEq] at h
  subst h
  have hbeg : ((settle cfg (s.upd p fun y => { y with newer := false }) p).sims p).begun = (s.sims p).begun := by
    have := (settle_bbEq cfg (s.upd p fun y => { y with newer := false }) p) p
    simp only [SimSt.bb, Prod.mk.injEq] at this
    rw [this.2]; simp
  have hother : ∀ q, q ≠ p → (settle cfg (s.upd p fun y => { y with newer := false }) p).sims q = s.sims q := by
    intro q hqp; rw [settle_other _ _ _ hqp, State.upd_other _ _ hqp]
  refine ⟨hp, ?_, hwk, ?_, ?_⟩
  · rw [lifeDone_settled (settle_settled cfg _ p), hbeg]
    unfold lifeDone; rw [hpc]; simp
  · -- not wakeable again
    cases hwk' : wakeable cfg (settle cfg (s.upd p fun y => { y with newer := false }) p) p with
    | false => rfl
    | true =>
      exfalso
      obtain ⟨_, a', dl', hpc', hcond'⟩ := wakeable_iff.mp hwk'
      rw [settle_newer, settle_progress, settle_clock] at hcond'
      simp only [State.upd_same] at hcond'
      have hok := hcore p hp
      -- what `next_step_settled` set
      unfold settle at hpc'
      simp only [State.upd_same] at hpc'
      split at hpc'
      · simp at hpc'
      · rename_i htime
        have hne : (s.sims p).progress ≠ cfg.endT p := by
          intro e
          apply htime
          rw [e, Cfg.endT, time_ofWorld (hw.depth p hp)]
          exact Nat.le_refl _
        have hlt_end : (s.sims p).progress < cfg.endT p := by
          rcases TT.le_iff_lt_or_eq.mp hok.le_end with h1 | h1
          · exact h1
          · exact absurd h1 hne
        have hdl : ∀ (x y : Nat), timedOut (cfg.rt.map (x + ·)) y = false := by
          intro x y; rw [hw.noRt]; rfl
        cases hh : (s.sims p).next.head? with
        | none =>
          simp only [hh, State.upd_same, PC.awaitSettle.injEq] at hpc'
          obtain ⟨ha, hd⟩ := hpc'
          rw [← ha, ← hd] at hcond'
          rcases hcond' with h1 | h1 | h1
          · exact TT.lt_irrefl _ (TT.lt_of_lt_of_le hlt_end h1)
          · cases h1
          · rw [hdl] at h1; cases h1
        | some hd0 =>
          simp only [hh] at hpc'
          split at hpc'
          · simp at hpc'
          · rename_i hneq
            simp only [State.upd_same, PC.awaitSettle.injEq] at hpc'
            obtain ⟨ha, hd⟩ := hpc'
            have hle : (s.sims p).progress ≤ hd0 := hok.le_next hd0 (List.mem_of_mem_head? hh)
            have hlt_h : (s.sims p).progress < hd0 := by
              rcases TT.le_iff_lt_or_eq.mp hle with h1 | h1
              · exact h1
              · exact absurd h1.symm hneq
            rw [← ha, ← hd] at hcond'
            rcases hcond' with h1 | h1 | h1
            · split at h1
              · exact TT.lt_irrefl _ (TT.lt_of_lt_of_le hlt_end h1)
              · exact TT.lt_irrefl _ (TT.lt_of_lt_of_le hlt_h h1)
            · cases h1
            · rw [hdl] at h1; cases h1
  · intro q hqp
    constructor
    · rw [hother q hqp]
    · -- the wake-up condition of `q` reads only `q`'s own state, the failure flag and the clock
      have e1 : ∀ b : Bool, (wakeable cfg (settle cfg (s.upd p fun y => { y with newer := false }) p) q = b) ↔
          (wakeable cfg s q = b) := by
        intro b
        cases b with
        | true =>
          rw [wakeable_iff, wakeable_iff, hother q hqp, settle_clock, settle_failed]
          rfl
        | false =>
          rw [← Bool.not_eq_true, ← Bool.not_eq_true, wakeable_iff, wakeable_iff, hother q hqp, settle_clock, settle_failed]
          rfl
      cases hb : wakeable cfg s q with
      | true => exact (e1 true).mpr hb
      | false => exact (e1 false).mpr hb

/-! ### the potential decreases -/

theorem lifeDone_of_ownEq {q : Sid} {s s' : State} (h : OwnEq q s s') : lifeDone (s'.sims q) = lifeDone (s.sims q) := by
  unfold OwnEq at h
  simp only [SimSt.own, Prod.mk.injEq] at h
  unfold lifeDone
  rw [h.1, h.2.2.1]

theorem potential_decreases {cfg : Cfg} (hw : WFCfg cfg) (hs : WFShape cfg) {s s' : State} {a : Action} (hr : Reach cfg s)
    (hnf0 : s.failed = none) (h : step cfg s a = some s') (hnf : s'.failed = none) (hsch : a.sched) :
    totalPotential cfg s' + 1 ≤ totalPotential cfg s := by
  have hr' : Reach cfg s' := Reach.step hr h
  unfold totalPotential
  by_cases hwake : ∃ p, a = .wake p
  · obtain ⟨p, rfl⟩ := hwake
    obtain ⟨hp, hlife, hwk, hwk', hoth⟩ := wake_effect hw hr hnf0 h hnf
    apply sumTo_drop 1 cfg.n p hp
    · unfold potential
      rw [hlife, hwk, hwk']
      simp
    · intro q _ hqp
      unfold potential
      rw [(hoth q hqp).1, (hoth q hqp).2]
  · have hnw : ∀ p, a ≠ .wake p := fun p e => hwake ⟨p, e⟩
    obtain ⟨p, hact, hp, hgain⟩ := actor_life hw hr hnf0 h hnf hsch hnw
    have hcap' := lifeDone_le_cap hw hs hr' hnf hp
    have key : sumTo cfg.n (potential cfg s') + cfg.n ≤ sumTo cfg.n (potential cfg s) + (cfg.n - 1) :=
      sumTo_change (f := potential cfg s) (f' := potential cfg s') cfg.n cfg.n p hp (by
        unfold potential
        have hmul : (cfg.n + 1) * (lifeCap cfg p - lifeDone (s'.sims p)) + (cfg.n + 1) ≤
            (cfg.n + 1) * (lifeCap cfg p - lifeDone (s.sims p)) := by
          rw [← Nat.mul_succ]
          apply Nat.mul_le_mul_left
          omega
        have h1 : (if wakeable cfg s' p = true then 1 else 0) ≤ 1 := by split <;> omega
        omega) (by
        intro q _ hqp
        unfold potential
        have hown : OwnEq q s s' := by
          apply step_other_own h
          · rw [hact]; intro e; exact hqp (Option.some.inj e).symm
          · intro p' e' ha'; rw [ha'] at hsch; cases hsch
        rw [lifeDone_of_ownEq hown]
        have h1 : (if wakeable cfg s' q = true then 1 else 0) ≤ 1 := by split <;> omega
        omega)
    generalize sumTo cfg.n (potential cfg s') = F at key ⊢
    generalize sumTo cfg.n (potential cfg s) = E at key ⊢
    generalize cfg.n = N at key hp
    have hN : 1 ≤ N := Nat.lt_of_le_of_lt (Nat.zero_le _) hp
    omega

/-- **C05, termination.**  A run from the initial state that has not failed and contains no asynchronous request of a
simulator (`set_data`, `get_data`, `set_event`) has at most `totalPotential cfg (initState cfg)` actions — a number
that depends only on the configuration (`potential_init_le`). -/
theorem run_length_from {cfg : Cfg} (hw : WFCfg cfg) (hs : WFShape cfg) : ∀ (as : List Action) {s s' : State}, Reach cfg s →
    exec cfg s as = some s' → s'.failed = none → (∀ a ∈ as, a.sched) →
    as.length + totalPotential cfg s' ≤ totalPotential cfg s
  | [], s, s', _, h, _, _ => by
    simp [exec] at h; subst h; simp
  | a :: as, s, s', hr, h, hnf, hsch => by
    simp only [exec] at h
    cases hst : step cfg s a with
    | none => simp [hst] at h
    | some s1 =>
      rw [hst] at h
      have hnf1 := exec_cons_not_failed hst h hnf
      have hf0 : s.failed = none := by
        cases hf : s.failed with
        | none => rfl
        | some e => rw [step_none_of_failed (by rw [hf]; rfl)] at hst; cases hst
      have h1 := potential_decreases hw hs hr hf0 hst hnf1 (hsch a List.mem_cons_self)
      have h2 := run_length_from hw hs as (Reach.step hr hst) h hnf (fun b hb => hsch b (List.mem_cons_of_mem _ hb))
      simp only [List.length_cons]
      omega

theorem potential_le (cfg : Cfg) (s : State) (p : Sid) : potential cfg s p ≤ (cfg.n + 1) * lifeCap cfg p + 1 := by
  unfold potential
  have : (cfg.n + 1) * (lifeCap cfg p - lifeDone (s.sims p)) ≤ (cfg.n + 1) * lifeCap cfg p :=
    Nat.mul_le_mul_left _ (Nat.sub_le _ _)
  have h1 : (if wakeable cfg s p = true then 1 else 0) ≤ 1 := by split <;> omega
  omega

/-- the bound, spelled out -/
def runBound (cfg : Cfg) : Nat := sumTo cfg.n (fun p => (cfg.n + 1) * lifeCap cfg p + 1)

theorem run_length_bounded {cfg : Cfg} (hw : WFCfg cfg) (hs : WFShape cfg) (as : List Action) {s : State}
    (he : exec cfg (initState cfg) as = some s) (hnf : s.failed = none) (hsch : ∀ a ∈ as, a.sched) :
    as.length ≤ runBound cfg := by
  have h1 := run_length_from hw hs as Reach.init he hnf hsch
  have h2 : totalPotential cfg (initState cfg) ≤ runBound cfg :=
    sumTo_le cfg.n (fun p _ => potential_le cfg _ p)
  omega

end Mosaik
