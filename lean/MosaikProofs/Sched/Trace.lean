/-
Runs (`exec`): reachability, failure is absorbing, monotonicity along a run.
-/
import MosaikProofs.Sched.Frame
namespace Mosaik

theorem live_false_of_failed {cfg : Cfg} {s : State} (h : s.failed.isSome = true) (p : Sid) : live cfg s p = false := by
  cases hf : s.failed with
  | none => rw [hf] at h; cases h
  | some e => simp [live, hf]

/-- C13.absorbing, model level: after `run()` has failed no action is enabled -/
theorem step_none_of_failed {cfg : Cfg} {s : State} (h : s.failed.isSome = true) (a : Action) : step cfg s a = none := by
  have hl := fun p => live_false_of_failed (cfg := cfg) h p
  cases a <;> simp [step, stepStart, stepWake, stepDeps, stepSetData, stepGetDataReq, stepSetEvent, stepStepReply,
    stepDataReply, stepTick, hl, h]

theorem exec_reach {cfg : Cfg} : ∀ (as : List Action) {s s' : State}, Reach cfg s → exec cfg s as = some s' → Reach cfg s'
  | [], s, s', hr, h => by simp [exec] at h; exact h ▸ hr
  | a :: as, s, s', hr, h => by
    simp only [exec] at h
    cases hs : step cfg s a with
    | none => simp [hs] at h
    | some s1 =>
      simp only [hs] at h
      exact exec_reach as (Reach.step hr hs) h

/-- in a run that ends without failure no intermediate state has failed -/
theorem exec_cons_not_failed {cfg : Cfg} {a : Action} {as : List Action} {s s1 s' : State}
    (hs : step cfg s a = some s1) (h : exec cfg s1 as = some s') (hnf : s'.failed = none) : s1.failed = none := by
  cases hf : s1.failed with
  | none => rfl
  | some e =>
    cases as with
    | nil => simp [exec] at h; subst h; rw [hf] at hnf; cases hnf
    | cons b bs =>
      simp only [exec] at h
      rw [step_none_of_failed (by rw [hf]; rfl)] at h
      cases h

/-- along a run progress only grows and begun steps are never forgotten -/
theorem exec_mono {cfg : Cfg} (hw : WFCfg cfg) : ∀ (as : List Action) {s s' : State}, Reach cfg s →
    exec cfg s as = some s' → s'.failed = none →
    (∀ q, (s.sims q).progress ≤ (s'.sims q).progress) ∧ (∀ q, ∀ b ∈ (s.sims q).begun, b ∈ (s'.sims q).begun)
  | [], s, s', _, h, _ => by
    simp [exec] at h; subst h
    exact ⟨fun _ => TT.le_refl _, fun _ _ hb => hb⟩
  | a :: as, s, s', hr, h, hnf => by
    simp only [exec] at h
    cases hs : step cfg s a with
    | none => simp [hs] at h
    | some s1 =>
      simp only [hs] at h
      have hnf1 := exec_cons_not_failed hs h hnf
      obtain ⟨ih1, ih2⟩ := exec_mono hw as (Reach.step hr hs) h hnf
      rcases step_frame hw (reach_good hw hr) hs hnf1 with hl | ⟨p, c, _, _, _, _, _, _, _, _, hprog, hbeg, _, hoth⟩
      · exact ⟨fun q => TT.le_trans (hl.progress q) (ih1 q),
               fun q b hb => ih2 q b (by rw [hl.begun q]; exact hb)⟩
      · refine ⟨fun q => TT.le_trans (TT.le_of_eq (hprog q).symm) (ih1 q), ?_⟩
        intro q b hb
        apply ih2 q b
        by_cases hq : q = p
        · subst hq; rw [hbeg]; exact List.mem_cons_of_mem _ hb
        · rw [hoth q hq]; exact hb

end Mosaik
