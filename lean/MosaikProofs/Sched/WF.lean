/-
The executable configuration check `Cfg.wfB` (evaluated by the driver on every scenario of the
correspondence runs) implies the hypotheses `WFCfg` of the scheduler theorems.
-/
import MosaikModel.WF
import MosaikProofs.Sched.Inv
namespace Mosaik

theorem TI.leB_sound {a b : TI} (h : TI.leB a b = true) : TI.le a b := by
  simp only [TI.leB, Bool.and_eq_true, beq_iff_eq, decide_eq_true_eq] at h
  exact ⟨h.1.1.1, h.1.1.2, h.1.2, h.2⟩

theorem wfB_sound {cfg : Cfg} (h : cfg.wfB = true) : WFCfg cfg := by
  simp only [Cfg.wfB, Bool.and_eq_true, List.all_eq_true, List.mem_range] at h
  obtain ⟨hrt, hall⟩ := h
  have hsim : ∀ p, p < cfg.n → cfg.wfSim p = true := hall
  have unpack := fun p hp => by
    have := hsim p hp
    simp only [Cfg.wfSim, Bool.and_eq_true, List.all_eq_true, List.any_eq_true, decide_eq_true_eq, Bool.or_eq_true,
      Bool.not_eq_true', beq_iff_eq, List.mem_range] at this
    exact this
  constructor
  · simpa using hrt
  · intro p hp
    obtain ⟨⟨⟨⟨⟨⟨⟨⟨h1, _⟩, _⟩, _⟩, _⟩, _⟩, _⟩, _⟩, _⟩ := unpack p hp
    exact h1
  · intro p hp tr htr
    obtain ⟨⟨⟨⟨⟨⟨⟨⟨_, h2⟩, _⟩, _⟩, _⟩, _⟩, _⟩, _⟩, _⟩ := unpack p hp
    exact h2 tr htr
  · intro p hp ad had
    obtain ⟨⟨⟨⟨⟨⟨⟨⟨_, _⟩, h3⟩, _⟩, _⟩, _⟩, _⟩, _⟩, _⟩ := unpack p hp
    exact (h3 ad had).1
  · intro p hp tr htr
    obtain ⟨⟨⟨⟨⟨⟨⟨⟨_, _⟩, _⟩, h4⟩, _⟩, _⟩, _⟩, _⟩, _⟩ := unpack p hp
    obtain ⟨ad, had, he, hle⟩ := h4 tr htr
    refine ⟨ad.2, ?_, TI.leB_sound hle⟩
    have : ad = (p, ad.2) := by rw [← he]
    rw [← this]; exact had
  · intro p hp tr htr q hq bd hbd hb
    obtain ⟨⟨⟨⟨⟨⟨⟨⟨_, _⟩, _⟩, _⟩, h5⟩, _⟩, _⟩, _⟩, _⟩ := unpack p hp
    have := h5 tr htr q hq bd hbd
    rcases this with hne | ⟨⟨ad, had, he, hle⟩, hcut⟩
    · simp [hb] at hne
    · refine ⟨⟨ad.2, ?_, TI.leB_sound hle⟩, hcut⟩
      have : ad = (p, ad.2) := by rw [← he]
      rw [← this]; exact had
  · intro p hp tr htr
    obtain ⟨⟨⟨⟨⟨⟨⟨⟨_, _⟩, _⟩, _⟩, _⟩, h6⟩, _⟩, _⟩, _⟩ := unpack p hp
    obtain ⟨qd, hqd, he, hle⟩ := h6 tr htr
    refine ⟨qd.2, ?_, TI.leB_sound hle⟩
    have : qd = (p, qd.2) := by rw [← he]
    rw [← this]; exact hqd
  · intro p hp ad had
    obtain ⟨⟨⟨⟨⟨⟨⟨⟨_, _⟩, h3⟩, _⟩, _⟩, _⟩, _⟩, _⟩, _⟩ := unpack p hp
    exact (h3 ad had).2
  · intro p hp
    obtain ⟨⟨⟨⟨⟨⟨⟨⟨_, _⟩, _⟩, _⟩, _⟩, _⟩, h7⟩, h8⟩, _⟩ := unpack p hp
    exact ⟨h7, h8⟩
  · intro p hp hempty
    obtain ⟨⟨⟨⟨⟨⟨⟨⟨_, _⟩, _⟩, _⟩, _⟩, _⟩, _⟩, _⟩, h9⟩ := unpack p hp
    rcases h9 with h | h
    · rw [hempty] at h; cases h
    · simpa using h

end Mosaik
