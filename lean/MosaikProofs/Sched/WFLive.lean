/-
The executable checks `Cfg.shapeB` and `Cfg.flatB` (evaluated by the driver's `wfx` command on the
scenarios of the correspondence runs) imply the hypotheses `WFShape` and `Flat` of the liveness
theorems.
-/
import MosaikModel.WF
import MosaikProofs.Sched.Deadlock
import MosaikProofs.Sched.WF
import MosaikProofs.Sched.Buffer
import MosaikProofs.Sched.Cached
import MosaikProofs.Sched.PushRef
namespace Mosaik

theorem Cfg.sim_of_ge {cfg : Cfg} {p : Sid} (h : cfg.n ≤ p) : cfg.sim p = {} := by
  unfold Cfg.sim Cfg.n at *
  simp [List.getD, List.getElem?_eq_none h]

theorem shapeB_sound {cfg : Cfg} (h : cfg.shapeB = true) : WFShape cfg := by
  simp only [Cfg.shapeB, List.all_eq_true, List.mem_range] at h
  have unpack := fun p hp => by
    have := h p hp
    simp only [Cfg.shapeSim, Bool.and_eq_true, List.all_eq_true, beq_iff_eq] at this
    exact this
  constructor
  · intro x hx tr htr; exact (unpack x hx).1.1 tr htr
  · intro q hq ad had; exact (unpack q hq).1.2 ad had
  · intro p t ht
    by_cases hp : p < cfg.n
    · exact (unpack p hp).2 t ht
    · rw [Cfg.sim_of_ge (Nat.le_of_not_lt hp)] at ht; cases ht

theorem flatB_sound {cfg : Cfg} {rk : List Nat} (h : cfg.flatB rk = true) : Flat cfg (fun p => rk.getD p 0) := by
  simp only [Cfg.flatB, List.all_eq_true, List.mem_range] at h
  have unpack := fun p hp => by
    have := h p hp
    simp only [Cfg.flatSim, Bool.and_eq_true, List.all_eq_true, beq_iff_eq, decide_eq_true_eq, Bool.or_eq_true,
      bne_iff_ne, ne_eq] at this
    exact this
  constructor
  · intro p
    by_cases hp : p < cfg.n
    · exact (unpack p hp).1.1.1.1
    · rw [Cfg.sim_of_ge (Nat.le_of_not_lt hp)]
  · intro p hp qd hqd; exact ((unpack p hp).1.1.1.2 qd hqd).1.1.1
  · intro p hp sd hsd; exact ((unpack p hp).1.2 sd hsd).1.1
  · intro p hp sd hsd; exact ((unpack p hp).2 sd hsd).1.1
  · intro p hp qd hqd; exact ⟨((unpack p hp).1.1.1.2 qd hqd).1.1.2, ((unpack p hp).1.1.1.2 qd hqd).1.2⟩
  · intro p hp ad had; exact ⟨((unpack p hp).1.1.2 ad had).1.1, ((unpack p hp).1.1.2 ad had).1.2⟩
  · intro p hp sd hsd; exact ⟨((unpack p hp).1.2 sd hsd).1.2, ((unpack p hp).1.2 sd hsd).2⟩
  · intro p hp sd hsd; exact ⟨((unpack p hp).2 sd hsd).1.2, ((unpack p hp).2 sd hsd).2⟩
  · intro p hp qd hqd hz
    rcases ((unpack p hp).1.1.1.2 qd hqd).2 with h1 | h1
    · exact absurd hz h1
    · exact h1
  · intro p hp ad had hz
    rcases ((unpack p hp).1.1.2 ad had).2 with h1 | h1
    · exact absurd hz h1
    · exact h1

theorem pushB_sound {cfg : Cfg} (h : cfg.pushB = true) : PushOk cfg := by
  simp only [Cfg.pushB, List.all_eq_true, List.mem_range] at h
  have unpack := fun p hp => by
    have := h p hp
    simp only [Cfg.pushSim, Bool.and_eq_true, List.all_eq_true, List.any_eq_true, beq_iff_eq, decide_eq_true_eq] at this
    exact this
  constructor
  · intro p hp e he; exact (unpack p hp e he).1.1.1
  · intro p hp e he; exact ⟨(unpack p hp e he).1.1.2, (unpack p hp e he).1.2⟩
  · intro p hp e he
    obtain ⟨qd, hqd, heq, hle⟩ := (unpack p hp e he).2
    refine ⟨qd.2, ?_, TI.leB_sound hle⟩
    have : qd = (p, qd.2) := by rw [← heq]
    rw [← this]; exact hqd

theorem pullB_sound {cfg : Cfg} (h : cfg.pullB = true) : PullOk cfg := by
  simp only [Cfg.pullB, List.all_eq_true, List.mem_range] at h
  have unpack := fun p hp => by
    have := h p hp
    simp only [Cfg.pullSim, Bool.and_eq_true, List.all_eq_true, List.any_eq_true, beq_iff_eq, decide_eq_true_eq] at this
    exact this
  constructor
  · intro p hp e he; exact (unpack p hp e he).1.1.1
  · intro p hp e he; exact ⟨(unpack p hp e he).1.1.2, (unpack p hp e he).1.2⟩
  · intro p hp e he
    obtain ⟨qd, hqd, heq, hle⟩ := (unpack p hp e he).2
    refine ⟨qd.2, ?_, TI.leB_sound hle⟩
    have : qd = (e.1, qd.2) := by rw [← heq]
    rw [← this]; exact hqd

/-- what a run of the driver's check establishes: the deadlock-freedom theorem applies -/
theorem deadlock_free_of_checks {cfg : Cfg} (h1 : cfg.wfB = true) (h2 : cfg.shapeB = true) (h3 : cfg.flatB cfg.zeroRank = true)
    {s : State} (hr : Reach cfg s) (hnf : s.failed = none) (hsome : ∃ p, p < cfg.n ∧ (s.sims p).pc ≠ .done) :
    (∃ p, (step cfg s (.start p)).isSome = true) ∨ Moves cfg s ∨
    (∃ p, p < cfg.n ∧ ((s.sims p).pc = .inStep ∨ (s.sims p).pc = .inGet)) :=
  deadlock_free_flat (wfB_sound h1) (shapeB_sound h2) (flatB_sound h3) hr hnf hsome

/-- … and the no-late-arrival invariant holds -/
theorem bufOk_of_checks {cfg : Cfg} (h1 : cfg.wfB = true) (h2 : cfg.shapeB = true) (h3 : cfg.flatB cfg.zeroRank = true)
    (h4 : cfg.pushB = true) {s : State} (hr : Reach cfg s) (hnf : s.failed = none) : ∀ q, q < cfg.n → BufOk s q :=
  reach_bufOk (wfB_sound h1) (shapeB_sound h2) (flatB_sound h3) (pushB_sound h4) hr hnf

/-- the executable check gives the two connection hypotheses of the push-path refinement, for every pushed connection -/
theorem pushKeysB_sound {cfg : Cfg} (h : cfg.pushKeysB = true) {p : Sid} (hp : p < cfg.n) :
    (cfg.sim p).pulled = [] ∧
    ∀ pe ∈ (cfg.sim p).push, (cfg.sim p).push.filter (hits pe.2.1 (keyOf p pe) p) = [pe] := by
  simp only [Cfg.pushKeysB, List.all_eq_true, List.mem_range] at h
  have := h p hp
  simp only [Cfg.pushKeysSim, Bool.and_eq_true, List.all_eq_true, List.isEmpty_iff] at this
  refine ⟨this.1, fun pe hpe => ?_⟩
  have hf := this.2 pe hpe
  simp only [beq_iff_eq] at hf
  rw [← hf]
  apply List.filter_congr
  intro e _
  simp only [hits, keyOf]
  have : ((({ eid := e.2.2.2.1, attr := e.2.2.2.2, ssid := p, seid := e.1.1 } : InKey) ==
      ({ eid := pe.2.2.2.1, attr := pe.2.2.2.2, ssid := p, seid := pe.1.1 } : InKey))) =
      (e.2.2.2.1 == pe.2.2.2.1 && e.2.2.2.2 == pe.2.2.2.2 && e.1.1 == pe.1.1) := by
    rw [Bool.eq_iff_iff]
    simp only [beq_iff_eq, Bool.and_eq_true, InKey.mk.injEq]
    constructor
    · intro hh; exact ⟨⟨hh.1, hh.2.1⟩, hh.2.2.2⟩
    · intro hh; exact ⟨hh.1.1, hh.1.2, trivial, hh.2⟩
  rw [this]

end Mosaik
