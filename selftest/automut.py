#!/usr/bin/env python3
"""Automatic one-token mutants of mosaik (detection self-test, not a registered check).

For every mutant: scratch copy of /repo/mosaik (outside /repo and /verif) -> the repository's own test suite; a mutant the suite
does not notice is handed to the checks (MOSAIK_SRC=<copy>): first the ones serving the mutated file, then all others.  Result:
/var/tmp/automut/results.jsonl, one line per mutant (killed by tests / detected by <check> / survived).

    selftest/automut.py [jobs] [max mutants per file]
"""
import json
import os
import random
import re
import shutil
import subprocess
import sys
from concurrent.futures import ThreadPoolExecutor

V = "/verif"
OUT = "/var/tmp/automut" + (sys.argv[3] if len(sys.argv) > 3 else "")
JOBS = int(sys.argv[1]) if len(sys.argv) > 1 else 6
PER_FILE = int(sys.argv[2]) if len(sys.argv) > 2 else 40

FILES = {
    "scheduler.py": ["C01", "C02", "C03", "C05", "C07", "C09", "C10", "C13", "C17", "C16"],
    "simmanager.py": ["C02", "C03", "C05", "C16", "C17", "C13", "C14", "C15", "C04"],
    "scenario.py": ["C11", "C06", "C07", "C01", "C03", "C02", "C12", "C10", "C05", "C16"],
    "progress.py": ["C05", "C01", "C02", "C07"],
    "tiered_time.py": ["C08", "C06", "C01"],
    "util.py": ["C18"],
    "adapters.py": ["C15", "C14", "C02"],
    "proxies.py": ["C15", "C14", "C13", "C17"],
    "internal_util.py": ["C03", "C04"],
    "in_or_out_set.py": ["C12"],
}
ALL = [f"C{i:02d}" for i in range(1, 19)]

OPS = [
    (r" <= ", " < "), (r" < ", " <= "), (r" >= ", " > "), (r" > ", " >= "), (r" == ", " != "), (r" != ", " == "),
    (r" \+ 1\b", " + 0"), (r" - 1\b", " - 0"), (r" and ", " or "), (r" or ", " and "), (r"\bnot ", ""),
    (r"\bmin\(", "max("), (r"\bmax\(", "min("), (r" is not None", " is None"), (r" is None", " is not None"),
    (r"\bTrue\b", "False"), (r"\bFalse\b", "True"), (r"\.get\((\w+), ", r"[\1] if False else ("), (r"\bcontinue\b", "pass"),
]


def candidates(fname):
    src = open(f"/repo/mosaik/{fname}").read().split("\n")
    out = []
    in_doc = False
    for ln, line in enumerate(src):
        if fname == "util.py" and ln >= 144:
            break               # plotting helpers: outside the properties
        st = line.strip()
        if st.count('"""') % 2 == 1 or st.count("'''") % 2 == 1:
            in_doc = not in_doc
            continue
        if in_doc or not st or st.startswith("#") or st.startswith(("import ", "from ", "def ", "class ", "@", "logger.", "raise ", '"', "'", "f\"", "f'")):
            continue
        if "->" in line and line.rstrip().endswith(":"):
            continue
        code = line.split("  #")[0]
        for k, (pat, rep) in enumerate(OPS):
            for m in re.finditer(pat, code):
                # not inside a string literal (rough: even number of quotes before the match)
                pre = code[:m.start()]
                if pre.count('"') % 2 or pre.count("'") % 2:
                    continue
                new = code[:m.start()] + re.sub(pat, rep, code[m.start():m.end()]) + code[m.end():] + line[len(code):]
                out.append((fname, ln, k, line, new))
    return out


def run(cmd, env=None, timeout=900, cwd=None):
    try:
        r = subprocess.run(cmd, capture_output=True, text=True, env=env, timeout=timeout, cwd=cwd)
        return r.returncode, r.stdout + r.stderr
    except subprocess.TimeoutExpired:
        return 124, "timeout"


def one(args):
    idx, (fname, ln, k, old, new) = args
    d = f"{OUT}/m{idx}"
    shutil.rmtree(d, ignore_errors=True)
    os.makedirs(d)
    shutil.copytree("/repo/mosaik", f"{d}/mosaik")
    os.symlink("/repo/tests", f"{d}/tests")
    for extra in ("setup.py", "setup.cfg", "pyproject.toml", "conftest.py", "pytest.ini", "tox.ini"):
        if os.path.exists(f"/repo/{extra}"):
            shutil.copy(f"/repo/{extra}", f"{d}/{extra}")
    lines = open(f"{d}/mosaik/{fname}").read().split("\n")
    assert lines[ln] == old
    lines[ln] = new
    open(f"{d}/mosaik/{fname}", "w").write("\n".join(lines))
    res = {"id": idx, "file": fname, "line": ln + 1, "old": old.strip(), "new": new.strip()}
    env = dict(os.environ, PYTHONPATH=d)
    rc, out = run(["/venv/bin/python", "-c", "import mosaik, mosaik.scenario, mosaik.scheduler, mosaik.util"], env=env, timeout=60)
    if rc != 0:
        res["result"] = "does not import"
    else:
        rc, out = run(["/venv/bin/python", "-m", "pytest", "-q", "-x", "-p", "no:cacheprovider", "--timeout=120"], env=env, timeout=600, cwd=d)
        res["suite_tail"] = out.strip().split("\n")[-1][:80]
        if rc != 0:
            res["result"] = "killed by the test suite"
        else:
            res["result"] = "survived"
            order = FILES[fname] + [c for c in ALL if c not in FILES[fname]]
            env2 = dict(os.environ, MOSAIK_SRC=d, VERIF_SEED=str(2000 + idx))
            for c in order:
                rc, out = run([f"{V}/check", c], env=env2, cwd=V, timeout=900)
                vl = [l for l in out.split("\n") if l.startswith("VIOLATION")]
                if vl:
                    res["result"] = f"detected by {c}" + (" (no-failing-input-found)" if vl[0].endswith("no-failing-input-found") else " (concrete input)")
                    break
                if rc == 2:
                    res.setdefault("harness_errors", []).append(c)
    shutil.rmtree(d, ignore_errors=True)
    with open(f"{OUT}/results.jsonl", "a") as f:
        f.write(json.dumps(res) + "\n")
    print(res["id"], res["file"], res["line"], res["result"], "|", res["new"][:70], flush=True)
    return res


def main():
    os.makedirs(OUT, exist_ok=True)
    subprocess.run(["sh", "-c", f"cd {V}/lean && lake build >/dev/null 2>&1"], check=True)
    batch = int(sys.argv[3]) if len(sys.argv) > 3 else 0          # batch k takes the k-th slice of the shuffled candidates
    rng = random.Random(12345)
    todo = []
    for f in FILES:
        c = candidates(f)
        rng.shuffle(c)
        todo += c[batch * PER_FILE:(batch + 1) * PER_FILE]
    done = set()
    if os.path.exists(f"{OUT}/results.jsonl"):
        done = {json.loads(l)["id"] for l in open(f"{OUT}/results.jsonl")}
    work = [(i, t) for i, t in enumerate(todo) if i not in done]
    print(len(todo), "mutants,", len(work), "to run", flush=True)
    with ThreadPoolExecutor(JOBS) as ex:
        list(ex.map(one, work))
    rows = [json.loads(l) for l in open(f"{OUT}/results.jsonl")]
    from collections import Counter
    c = Counter(r["result"].split(" (")[0] if r["result"].startswith("detected") else r["result"] for r in rows)
    print(c)
    surv = [r for r in rows if r["result"] == "survived"]
    print(len(surv), "survived everything:")
    for r in surv:
        print("  ", r["file"], r["line"], r["old"][:60], "=>", r["new"][:60])


if __name__ == "__main__":
    main()
