"""D18: World(debug=True) crashes with AssertionError for a grouped simulator that has an async_requests connection."""
import sys, mosaik, mosaik_api_v3

META = {"api_version": "3.0", "type": "time-based", "models": {"M": {"public": True, "params": [], "attrs": ["a", "o"]}}}

class Sim(mosaik_api_v3.Simulator):
    def __init__(self): super().__init__(dict(META))
    def init(self, sid, time_resolution=1.0, **kw): return self.meta
    def create(self, num, model, **kw): return [{"eid": f"e{i}", "type": model} for i in range(num)]
    def step(self, time, inputs, max_advance): return time + 1
    def get_data(self, outputs): return {eid: {a: 1 for a in attrs} for eid, attrs in outputs.items()}

def run(debug):
    w = mosaik.World({"S": {"python": "__main__:Sim"}}, debug=debug, skip_greetings=True)
    with w.group():
        a = w.start("S").M()
        b = w.start("S").M()
    w.connect(a, b, ("o", "a"), async_requests=True)
    try:
        w.run(until=3, print_progress=False)
        return "finished"
    except BaseException as e:
        return "raised " + type(e).__name__

r0, r1 = run(False), run(True)
print("debug=False:", r0, " debug=True:", r1)
sys.exit(0 if r0 == r1 == "finished" else 1)
