"""D19: World(debug=True) crashes with KeyError 't' when a simulator with an async_requests successor steps a second time before
that successor has ever stepped, and a third simulator then receives data (here: initial data) from the successor."""
import sys, mosaik, mosaik_api_v3

class A(mosaik_api_v3.Simulator):       # hybrid: steps at 0, 1, 2; its event output is only produced from step 2 on
    def __init__(self): super().__init__({"api_version": "3.0", "type": "hybrid", "models": {"M": {"public": True, "params": [], "attrs": ["ev"], "non-persistent": ["ev"], "trigger": []}}})
    def init(self, sid, time_resolution=1.0, **kw): return self.meta
    def create(self, num, model, **kw): return [{"eid": "a", "type": model}]
    def step(self, time, inputs, max_advance): self.t = time; return time + 1
    def get_data(self, outputs): return {"a": {"ev": 1}} if self.t >= 2 else {}

class B(mosaik_api_v3.Simulator):       # event-based agent: steps only when A's event arrives
    def __init__(self): super().__init__({"api_version": "3.0", "type": "event-based", "models": {"M": {"public": True, "params": [], "attrs": ["ev", "x"]}}})
    def init(self, sid, time_resolution=1.0, **kw): return self.meta
    def create(self, num, model, **kw): return [{"eid": "b", "type": model}]
    def step(self, time, inputs, max_advance): return None
    def get_data(self, outputs): return {"b": {"x": 5}}

class C(mosaik_api_v3.Simulator):       # time-based consumer of B over a time-shifted connection with initial data
    def __init__(self): super().__init__({"api_version": "3.0", "type": "time-based", "models": {"M": {"public": True, "params": [], "attrs": ["x"]}}})
    def init(self, sid, time_resolution=1.0, **kw): return self.meta
    def create(self, num, model, **kw): return [{"eid": "c", "type": model}]
    def step(self, time, inputs, max_advance): return time + 1
    def get_data(self, outputs): return {}

def run(debug):
    w = mosaik.World({"A": {"python": "__main__:A"}, "B": {"python": "__main__:B"}, "C": {"python": "__main__:C"}}, debug=debug, skip_greetings=True)
    a, b, c = w.start("A").M(), w.start("B").M(), w.start("C").M()
    w.connect(a, b, "ev", async_requests=True)
    w.connect(b, c, "x", time_shifted=True, initial_data={"x": 0})
    try:
        w.run(until=4, print_progress=False)
        return "finished"
    except BaseException as e:
        return "raised " + type(e).__name__ + " " + str(e)

r0, r1 = run(False), run(True)
print("debug=False:", r0, " debug=True:", r1)
sys.exit(0 if r0 == r1 == "finished" else 1)
