"""A weak loop that needs 3 sub-steps per time step, bound max_loop_iterations=5, plus a time-shifted trigger connection inside the
group: the shifted event carries the sub-step index into the next time step."""
import sys, asyncio
import mosaik, mosaik_api_v3

class Sim(mosaik_api_v3.Simulator):
    def __init__(self):
        super().__init__({"api_version": "3.0", "type": "event-based", "models": {"M": {"public": True, "params": [], "attrs": ["go", "back", "next"]}}})
        self.count = {}
        self.log = []
    def init(self, sid, time_resolution=1.0, role="a", iters=3, **kw):
        self.sid, self.role, self.iters = sid, role, iters
        return self.meta
    def create(self, num, model, **kw):
        return [{"eid": "e", "type": model}]
    def step(self, time, inputs, max_advance):
        self.count[time] = self.count.get(time, 0) + 1
        self.log.append(time)
        self.t = time
        return None
    def get_data(self, outputs):
        n = self.count[self.t]
        d = {}
        if self.role == "a":
            if n < self.iters:
                d = {"e": {"go": n}}            # keep the loop going (own iteration count within this time step)
            else:
                d = {"e": {"next": n}}          # settled: announce the next time step over the time-shifted connection
        else:
            d = {"e": {"back": n}}
        return {k: {a: v for a, v in d[k].items() if a in outputs.get(k, [])} for k in d}

def run(ml, iters, until=4):
    w = mosaik.World({"S": {"python": "__main__:Sim"}}, max_loop_iterations=ml, skip_greetings=True)
    with w.group():
        A = w.start("S", sim_id="A", role="a", iters=iters)
        B = w.start("S", sim_id="B", role="b", iters=iters)
        a, b = A.M(), B.M()
        w.connect(a, b, ("go", "go"))
        w.connect(b, a, ("back", "back"), weak=True)
        w.connect(a, a, ("next", "go"), time_shifted=1)
    w.set_initial_event("A", 0)
    try:
        w.run(until=until, print_progress=False)
        return "finished"
    except Exception as e:
        return f"{type(e).__name__}: {str(e)[:150]}"

for ml, iters in [(5, 3), (10, 3), (4, 3), (100, 3)]:
    print(ml, iters, run(ml, iters))
