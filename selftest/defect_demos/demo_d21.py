"""D21 (C14): a subprocess simulator that dies while mosaik has no request outstanding to it made run() hang forever.
Run with PYTHONPATH=<mosaik tree>; exits 1 on the defect (hang or unclean shutdown), 0 otherwise."""
import os
import sys

sys.path.insert(0, os.path.join(os.path.dirname(os.path.abspath(__file__)), "..", "..", "harness"))
os.environ.setdefault("MOSAIK_SRC", next(p for p in sys.path if os.path.isdir(os.path.join(p, "mosaik"))))
import fault_enum as fe  # noqa: E402

bad = 0
for index in (0, 1, 3):
    r = fe.run_case(3, ["remote", "remote", "local"], 0, index, "exit_idle", slow=[0, 0.3, 0], timeout=6)
    r["fault_reached"] = True
    v = fe.judge(r)
    print(index, r["outcome"], r.get("message", ""), [x["law"] for x in v])
    bad += bool(v)
sys.exit(1 if bad else 0)
