"""D22 (C14): an in-process simulator raising SystemExit / KeyboardInterrupt aborted World.shutdown(): loop left open, a second
shutdown() finalized the simulators again.  Run with PYTHONPATH=<mosaik tree>; exits 1 on the defect, 0 otherwise."""
import os
import sys

sys.path.insert(0, os.path.join(os.path.dirname(os.path.abspath(__file__)), "..", "..", "harness"))
os.environ.setdefault("MOSAIK_SRC", next(p for p in sys.path if os.path.isdir(os.path.join(p, "mosaik"))))
import fault_enum as fe  # noqa: E402

bad = 0
for kind in ("sysexit", "kbint"):
    for index in (0, 2):
        r = fe.run_case(3, ["local", "local", "local"], 1, index, kind, timeout=6)
        r["fault_reached"] = True
        v = fe.judge(r)
        print(kind, index, r["outcome"], "loop closed:", r.get("loop_closed"), r["finalize_counts"], [x["law"] for x in v])
        bad += bool(v)
sys.exit(1 if bad else 0)
