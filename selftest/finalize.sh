#!/bin/sh
# selftest/finalize.sh : regenerate every evidence file from the unchanged tree (quick tier), validate MANIFEST and evidence
# against the schemas, and print one line per property.
cd "$(dirname "$0")/.."
test -z "$(git -C /repo status --porcelain)" || { echo "/repo is not clean"; exit 3; }
(cd lean && lake build >/dev/null 2>&1) || { echo "lean build failed"; exit 3; }
python3 gen_manifest.py >/dev/null
rc_all=0
for p in C01 C02 C03 C04 C05 C06 C07 C08 C09 C10 C11 C12 C13 C14 C15 C16 C17 C18; do
  out=$(./check $p 2>&1); rc=$?
  echo "$p exit=$rc $(echo "$out" | grep -c '^KNOWN-FINDING') known-finding line(s) $(echo "$out" | grep '^VIOLATION' | head -1)"
  [ $rc -ne 0 ] && rc_all=1
done
python3-vt - <<'PY'
import json, jsonschema, glob
m = json.load(open('MANIFEST.json')); jsonschema.validate(m, json.load(open('/root/.vp/MANIFEST.schema.json')))
sch = json.load(open('/root/.vp/EVIDENCE.schema.json'))
for f in sorted(glob.glob('evidence/*.json')):
    e = json.load(open(f)); jsonschema.validate(e, sch)
    assert e["violations"] == 0, f
print("MANIFEST and", len(glob.glob('evidence/*.json')), "evidence files valid, 0 violations")
PY
exit $rc_all
