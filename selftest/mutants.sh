#!/bin/sh
# Detection self-test (not a registered check): applies one mutation to a scratch copy of
# /repo/mosaik and runs the given checks against it via MOSAIK_SRC.
#   selftest/mutants.sh <name> <sed-expr> <file> <check ids...>
name="$1"; expr="$2"; file="$3"; shift 3
D=/var/tmp/mosaik-verif-mut-$$
rm -rf "$D"; mkdir -p "$D"; cp -r /repo/mosaik "$D/"
sed -i "$expr" "$D/mosaik/$file"
if diff -q /repo/mosaik/$file "$D/mosaik/$file" >/dev/null; then echo "MUTANT $name: sed did not change anything"; rm -rf "$D"; exit 3; fi
for id in "$@"; do
  out=$(MOSAIK_SRC="$D" /verif/check "$id" 2>&1 | grep -v "^Task was\|^task:")
  if echo "$out" | grep -q "^VIOLATION"; then echo "MUTANT $name: $id DETECTED: $(echo "$out" | grep '^VIOLATION' | head -1)";
  else echo "MUTANT $name: $id missed"; fi
done
rm -rf "$D"
