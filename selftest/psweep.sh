#!/bin/sh
# selftest/psweep.sh <tier> <jobs> <seeds...> : like sweep.sh, but runs <jobs> checks at a time (different properties
# write different evidence/replay files; the Lean build is done once up front, later `lake build`s are no-ops).
tier="$1"; jobs="$2"; shift 2
cd "$(dirname "$0")/.."
(cd lean && lake build >/dev/null 2>&1)
for s in "$@"; do
  for p in C01 C02 C03 C04 C05 C06 C07 C08 C09 C10 C11 C12 C13 C14 C15 C16 C17 C18; do echo "$s $p"; done
done | xargs -P "$jobs" -L 1 sh -c '
  s=$0; p=$1; t0=$(date +%s)
  out=$(VERIF_SEED=$s ./check $p --tier '"$tier"' 2>&1); rc=$?
  echo "seed=$s $p exit=$rc $(( $(date +%s) - t0 ))s $(echo "$out" | grep "^VIOLATION" | head -1)"'
