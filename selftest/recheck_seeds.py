#!/usr/bin/env python3
"""Re-runs, for every seeded change under /verif/seeded, the check of the property it breaks with the
patch applied to /repo (and undone afterwards); records the result in meta.json ("recheck")."""
import json, os, subprocess, sys, glob, time
V = "/verif"
rows = []
for d in sorted(glob.glob(f"{V}/seeded/*/")):
    meta_p = os.path.join(d, "meta.json")
    meta = json.load(open(meta_p))
    pid = meta["breaks_property"]
    assert subprocess.run(["git", "-C", "/repo", "status", "--porcelain"], capture_output=True, text=True).stdout.strip() == "", "/repo not clean"
    subprocess.run(["git", "-C", "/repo", "apply", os.path.join(d, "patch.diff")], check=True)
    try:
        t0 = time.time()
        r = subprocess.run([f"{V}/check", pid], capture_output=True, text=True, cwd=V)
        lines = [l for l in r.stdout.split("\n") if l.startswith("VIOLATION")]
    finally:
        subprocess.run(["git", "-C", "/repo", "checkout", "--", "."], check=True)
    res = "missed" if not lines else ("detected (no-failing-input-found)" if lines[0].endswith("no-failing-input-found") else "detected with a concrete failing input")
    meta["recheck"] = {"check": pid, "result": res, "exit": r.returncode, "wall_s": round(time.time() - t0, 1)}
    json.dump(meta, open(meta_p, "w"), indent=1)
    rows.append((meta["seed"], pid, res))
    print(meta["seed"], pid, res, flush=True)
print(sum(1 for r in rows if r[2] != "missed"), "of", len(rows), "detected")
