#!/usr/bin/env python3
"""Re-runs, for every seeded change under /verif/seeded, the check of the property it breaks against a scratch worktree of
/repo's HEAD with the patch applied (MOSAIK_SRC; /repo itself is not touched, so this can run next to other checks);
records the result in meta.json ("recheck").  Several seeds run in parallel (argument: number of jobs, default 6)."""
import json, os, subprocess, sys, glob, time, shutil
from concurrent.futures import ThreadPoolExecutor
V = "/verif"
jobs = int(sys.argv[1]) if len(sys.argv) > 1 else 6
subprocess.run(["sh", "-c", f"cd {V}/lean && lake build >/dev/null 2>&1"], check=True)


def one(d):
    meta_p = os.path.join(d, "meta.json")
    meta = json.load(open(meta_p))
    pid = meta["breaks_property"]
    wt = f"/tmp/wt-recheck-{os.getpid()}-{meta['seed']}"
    subprocess.run(["git", "-C", "/repo", "worktree", "add", "--detach", wt, "HEAD"], check=True, capture_output=True)
    try:
        t0 = time.time()
        ap = subprocess.run(["git", "-C", wt, "apply", os.path.join(d, "patch.diff")], capture_output=True, text=True)
        if ap.returncode != 0:
            ap = subprocess.run(["git", "-C", wt, "apply", "--3way", os.path.join(d, "patch.diff")], capture_output=True, text=True)
        if ap.returncode != 0:
            # a later fix: commit rewrote the lines the seeded change touches
            meta["recheck"] = {"check": pid, "result": "patch no longer applies to /repo's HEAD", "exit": None, "wall_s": 0}
            json.dump(meta, open(meta_p, "w"), indent=1)
            print(meta["seed"], pid, "patch no longer applies", flush=True)
            return (meta["seed"], pid, "patch no longer applies")
        # evidence / replay files of concurrent runs of the same property would collide: give each run its own seed number
        env = dict(os.environ, MOSAIK_SRC=wt, VERIF_SEED=str(1000 + abs(hash(meta["seed"])) % 9000))
        r = subprocess.run([f"{V}/check", pid], capture_output=True, text=True, cwd=V, env=env)
        lines = [l for l in r.stdout.split("\n") if l.startswith("VIOLATION")]
    finally:
        subprocess.run(["git", "-C", "/repo", "worktree", "remove", "--force", wt], capture_output=True)
    res = "missed" if not lines else ("detected (no-failing-input-found)" if lines[0].endswith("no-failing-input-found") else "detected with a concrete failing input")
    meta["recheck"] = {"check": pid, "result": res, "exit": r.returncode, "wall_s": round(time.time() - t0, 1)}
    json.dump(meta, open(meta_p, "w"), indent=1)
    print(meta["seed"], pid, res, flush=True)
    return (meta["seed"], pid, res)


with ThreadPoolExecutor(jobs) as ex:
    rows = list(ex.map(one, sorted(glob.glob(f"{V}/seeded/*/"))))
subprocess.run(["git", "-C", "/repo", "worktree", "prune"])
print(sum(1 for r in rows if r[2].startswith("detected")), "of", sum(1 for r in rows if not r[2].startswith("patch")), "applicable seeds detected;",
      sum(1 for r in rows if r[2].startswith("detected with")), "with a concrete failing input")
for r in rows:
    if not r[2].startswith("detected with"):
        print("  ", *r)
