#!/bin/sh
# selftest/seed.sh <seed-name> <worktree> <demo-file> <property-id> [<check ids to run>...]
# Confirms a seeded breaking change (demo fails with it, passes without, suite passes), stores it under
# /verif/seeded/<seed-name>/ and runs the given checks against /repo with the patch applied.
name="$1"; wt="$2"; demo="$3"; pid="$4"; shift 4
set -e
cd "$wt"
# the worktree may have been created before a fix: commit landed in /repo; move the change onto /repo's HEAD
head=$(git -C /repo rev-parse HEAD)
if [ "$(git rev-parse HEAD)" != "$head" ]; then
  git diff -- mosaik > /tmp/seed-$name.rebase.diff
  git checkout -q -- mosaik
  git checkout -q --detach "$head"
  git apply /tmp/seed-$name.rebase.diff
fi
git diff -- mosaik > /tmp/seed-$name.diff
test -s /tmp/seed-$name.diff || { echo "empty patch"; exit 3; }
echo "== demo with change (expect FAIL/exit 1)"
set +e
PYTHONPATH="$wt" timeout 400 /venv/bin/python "$demo" > /tmp/seed-$name.with.log 2>&1; with=$?
echo "exit=$with: $(tail -2 /tmp/seed-$name.with.log | tr '\n' ' ' | cut -c1-200)"
echo "== demo on unchanged /repo (expect PASS/exit 0)"
rm -rf /tmp/seedrun-$name; mkdir -p /tmp/seedrun-$name; cp "$wt"/demo_*.py /tmp/seedrun-$name/
(cd /tmp/seedrun-$name && PYTHONPATH=/repo timeout 400 /venv/bin/python "$demo" > /tmp/seed-$name.without.log 2>&1); without=$?
rm -rf /tmp/seedrun-$name
echo "exit=$without: $(tail -1 /tmp/seed-$name.without.log | cut -c1-200)"
echo "== test suite with change"
PYTHONPATH="$wt" /venv/bin/python -m pytest -q -p no:cacheprovider -x > /tmp/seed-$name.suite.log 2>&1; suite=$?
echo "exit=$suite: $(tail -1 /tmp/seed-$name.suite.log)"
set -e
if [ "$with" = "0" ] || [ "$without" != "0" ] || [ "$suite" != "0" ]; then echo "SEED $name NOT CONFIRMED"; exit 4; fi
d=/verif/seeded/$name
mkdir -p "$d"
cp /tmp/seed-$name.diff "$d/patch.diff"; cp "$wt"/demo_*.py "$d/"; [ -f "$wt/notes.md" ] && cp "$wt/notes.md" "$d/notes.md"
echo "== checks against /repo with the patch applied"
(cd /verif/lean && lake build >/dev/null 2>&1) || { echo "LEAN BUILD BROKEN: fix it first, every check would report no-failing-input-found"; exit 5; }
export MOSAIK_SRC="$wt"   # checks run against the worktree (patch applied there); /repo is not touched while a sweep is running
results=""
for id in "$@"; do
  out=$(cd /verif && ./check "$id" 2>&1 | grep -v "^Task was\|^task:")
  if echo "$out" | grep -q "^VIOLATION"; then r="detected"; line=$(echo "$out" | grep '^VIOLATION' | head -1); else r="missed"; line=""; fi
  echo "  $id: $r $line"
  results="$results\"$id\": \"$r $(echo $line | sed 's/.*replay=[^ ]* *//')\", "
done
unset MOSAIK_SRC
true
cat > "$d/meta.json" <<EOM
{"seed": "$name", "breaks_property": "$pid", "demo": "$demo",
 "confirmed": {"demo_with_change_exit": $with, "demo_on_unchanged_repo_exit": $without, "test_suite_with_change_exit": $suite},
 "checks_run_with_patch_applied_to_repo": {${results%, }}}
EOM
echo "SEED $name stored in $d"
