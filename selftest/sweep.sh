#!/bin/sh
# selftest/sweep.sh <tier> <seeds...> : runs every check for several seeds on the unchanged tree; prints one line per run.
tier="$1"; shift
cd "$(dirname "$0")/.."
(cd lean && lake build >/dev/null 2>&1)
for s in "$@"; do
  for p in C01 C02 C03 C04 C05 C06 C07 C08 C09 C10 C11 C12 C13 C14 C15 C16 C17 C18; do
    t0=$(date +%s)
    out=$(VERIF_SEED=$s ./check $p --tier $tier 2>&1); rc=$?
    echo "seed=$s $p exit=$rc $(( $(date +%s) - t0 ))s $(echo "$out" | grep '^VIOLATION' | head -1)"
  done
done
